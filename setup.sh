#!/bin/bash
# Builds the verification harnesses offline from files on disk.
set -e
HERE="$(cd "$(dirname "${BASH_SOURCE[0]}")" && pwd)"
cd "$HERE"
export CARGO_NET_OFFLINE=true
mkdir -p .logs evidence
CARGO_TARGET_DIR="$HERE/.target" cargo build --release --offline --manifest-path harness/Cargo.toml
if [ -x harness-conc/run.sh ]; then harness-conc/run.sh --build-only; fi
echo "setup ok"
