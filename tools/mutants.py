#!/usr/bin/env python3
"""Catalogue of deliberate property-breaking changes (pattern replacements against /repo's current sources).

  mutants.py suite  [names..]   apply each in a scratch worktree (outside /repo and /verif), run the repository's own suite, record pass/fail
  mutants.py detect [names..]   apply each to /repo, run the named checks (quick), expect exit 1 + VIOLATION, revert straight afterwards
Results are merged into /verif/mutants/results.json. /repo is always restored with `git checkout -- .`.
"""
import subprocess, sys, os, json, time
M = {}
def m(name, props, path, old, new, note=""):
    M[name] = dict(props=props, path=path, old=old, new=new, note=note)

m('decrypt_no_subject_digest_check', ['C08'], 'src/extension/encrypt.rs', "                if *result_subject.digest() != subject_digest {\n                    bail!(EnvelopeError::InvalidDigest);\n                }", "                let _ = &subject_digest;")
m('encrypt_subject_node_no_already_check', ['C08'], 'src/extension/encrypt.rs', "                if subject.is_encrypted() {\n                    bail!(EnvelopeError::AlreadyEncrypted);\n                }", "")
m('confirm_no_root_check', ['C12'], 'src/extension/proof.rs', "self.digest() == proof.digest() && proof.contains_all(target)", "proof.contains_all(target)")
m('proof_subset_check_removed', ['C12'], 'src/extension/proof.rs', "        if !target.is_subset(&reveal_set) {\n            return None;\n        }", "")
m('structural_same_discriminator', ['C14'], 'src/base/digest.rs', "EnvelopeCase::Compressed(_) => image.borrow_mut().push(2),", "EnvelopeCase::Compressed(_) => image.borrow_mut().push(1),")
m('uncompress_no_post_digest_check', ['C13'], 'src/extension/compress.rs', "                if envelope.digest().as_ref() != digest {\n                    bail!(EnvelopeError::InvalidDigest);\n                }", "")
m('compress_stores_subject_digest', ['C02', 'C13', 'C01'], 'src/extension/compress.rs', "Some(self.digest().into_owned()));", "Some(self.subject().digest().into_owned()));")
m('compress_not_idempotent', ['C13'], 'src/extension/compress.rs', "            EnvelopeCase::Compressed(_) => Ok(self.clone()),\n            #[cfg(feature = \"encrypt\")]", "            #[cfg(feature = \"encrypt\")]")
m('attachment_filter_missing_conforms_matches', ['C19'], 'src/extension/attachment/attachment_impl.rs', "                        } else {\n                            return false;\n                        }", "                        }")
m('attachments_skip_validation', ['C19'], 'src/extension/attachment/attachment_impl.rs', "            Self::validate_attachment(assertion)?;", "            let _ = Self::validate_attachment(assertion);")
m('dup_check_by_identity', ['C04', 'C07'], 'src/base/assertions.rs', "                        if !assertions.iter().any(|a| a.digest() == assertion.digest()) {", "                        if !assertions.iter().any(|a| a.is_identical_to(&assertion)) {")
m('add_assertion_no_kind_check', ['C04'], 'src/base/assertions.rs', "                if !assertion.is_subject_assertion() && !assertion.is_subject_obscured() {\n                    bail!(EnvelopeError::InvalidFormat)\n                }\n\n                match self.case() {", "                match self.case() {")
m('is_subject_obscured_omits_compressed', ['C04', 'C05'], 'src/base/queries.rs', "        #[cfg(feature = \"compress\")]\n        if self.is_subject_compressed() {\n            return true;\n        }\n        false\n    }\n\n    /// `true` if the envelope is *internal*", "        false\n    }\n\n    /// `true` if the envelope is *internal*")
m('node_decode_no_assertion_check', ['C06'], 'src/base/envelope.rs', "        if !assertions.iter().all(|a| a.is_subject_assertion() || a.is_subject_obscured()) {\n            bail!(EnvelopeError::InvalidFormat);\n        }", "")
m('decode_accepts_len1_array', ['C06'], 'src/base/cbor.rs', "if elements.len() < 2 {", "if elements.len() < 1 {")
m('decode_order_check_not_strict', ['C06'], 'src/base/cbor.rs', "all(|w| w[0].digest() < w[1].digest())", "all(|w| w[0].digest() <= w[1].digest())", "re-opens half of F1: repeated digests accepted")
m('threshold_default_len_minus_1', ['C09'], 'src/extension/signature/signature_impl.rs', "let threshold = threshold.unwrap_or(public_keys.len());", "let threshold = threshold.unwrap_or(public_keys.len().saturating_sub(1).max(1));")
m('predicate_match_by_identity', ['C15'], 'src/base/queries.rs', ".map(|p| p.digest() == predicate.digest())", ".map(|p| p.is_identical_to(&predicate))")
m('unelide_accepts_any', ['C03'], 'src/base/elide.rs', "        if self.digest() == envelope.digest() {\n            Ok(envelope)", "        if self.digest() == envelope.digest() || true {\n            Ok(envelope)")
m('salt_size_from_subject', ['C17'], 'src/extension/salt.rs', "Salt::new_for_size_using(self.tagged_cbor().to_cbor_data().len(), rng)", "Salt::new_for_size_using(self.subject().tagged_cbor().to_cbor_data().len(), rng)")
m('salted_flag_ignored_for_obscured', ['C17'], 'src/base/assertions.rs', "                let envelope2 = if salted {", "                let envelope2 = if salted && !assertion.is_subject_obscured() {")
m('response_accepts_both', ['C18'], 'src/extension/expressions/response.rs', "        if result_count + error_count != 1 {", "        if result_count + error_count == 0 {", "undoes the F10 repair")
m('request_any_subject_tag', ['C18'], 'src/extension/expressions/request.rs', "                .try_into_expected_tagged_value(tags::TAG_REQUEST)?", "                .try_into_tagged_value().map(|(_, v)| v)?")
m('recipient_first_sealed_message_only', ['C10'], 'src/extension/recipient.rs', "            if let Some(plaintext) = a {\n                return Ok(plaintext);\n            }", "            if let Some(plaintext) = a {\n                return Ok(plaintext);\n            } else { break; }")
m('sskr_join_decrypts_last', ['C11'], 'src/extension/sskr.rs', "envelopes.first().unwrap().decrypt_subject(&content_key)", "envelopes.last().unwrap().decrypt_subject(&content_key)", "only observable with shares mixed from two splits")
m('has_type_by_identity', ['C19'], 'src/extension/types.rs', "self.types().iter().any(|x| x.digest() == type_envelope.digest())", "self.types().iter().any(|x| x.is_identical_to(&type_envelope))")
m('once_replaced_by_check_then_init', ['C20'], 'src/base/format_context.rs', "        self.init.call_once(|| {\n            bc_components::register_tags();", "        if self.data.lock().unwrap().is_none() {\n            bc_components::register_tags();", "second half below")
m('elide_revealing_keeps_wrapped', ['C03'], 'src/base/elide.rs', "        if target.contains(&self_digest) != is_revealing {", "        if target.contains(&self_digest) != is_revealing && !(is_revealing && self.is_wrapped()) {")
m('decrypt_node_no_digest_check', [], 'src/extension/encrypt.rs', "                        if *result.digest() != *digest {\n                            bail!(EnvelopeError::InvalidDigest);\n                        }", "", "EQUIVALENT mutant: implied by the subject-digest comparison")
m('remove_last_assertion_no_collapse', ['C07'], 'src/base/assertions.rs', "            if assertions.is_empty() {\n                self.subject()", "            if assertions.is_empty() {\n                self.subject().subject()")
m('proof_reveals_targets', ['C12'], 'src/extension/proof.rs', "let elide_set: HashSet<Digest> = target.difference(&on_path).cloned().collect();", "let elide_set: HashSet<Digest> = HashSet::new(); let _ = &on_path;", "proofs no longer elide the targets themselves (minimal disclosure)")
m('objects_for_predicate_unwrap_again', ['C16'], 'src/base/queries.rs', ".filter_map(|a| a.subject().as_object())", ".map(|a| a.as_object().unwrap())", "undoes part of the F5 repair")
m('hashset_unsorted_again', ['C07'], 'src/base/envelope_encodable.rs', "Envelope::new(CBOR::from(Set::from(self)))", "Envelope::new(CBOR::from(self))", "undoes the F3 repair")
m('signature_skips_outer_check', ['C09'], 'src/extension/signature/signature_impl.rs', "                if !outer_signature_is_valid {\n                    return None;\n                }", "                let _ = outer_signature_is_valid;", "undoes the F7 repair")
m('mlkem_scheme_filter_removed', ['C10', 'C16'], 'src/extension/recipient.rs', "            if sealed_message.encapsulation_scheme() != scheme {\n                continue;\n            }", "            let _ = &scheme;", "undoes the F13 repair")
m('digests_level_le', ['C15'], 'src/base/digest.rs', "            if level < level_limit {", "            if level <= level_limit {", "caught by the suite too")
m('walk_structure_wrong_edge', ['C15'], 'src/base/walk.rs', "envelope._walk_structure(next_level, EdgeType::Wrapped, parent, visit);", "envelope._walk_structure(next_level, EdgeType::Subject, parent, visit);")
m('register_tags_lost_update', ['C20'], 'src/base/format_context.rs', "pub fn register_tags() {\n    with_format_context_mut!(|context: &mut FormatContext| {\n        register_tags_in(context);\n    });\n}", "pub fn register_tags() {\n    let mut copy = with_format_context!(|context: &FormatContext| context.clone());\n    register_tags_in(&mut copy);\n    with_format_context_mut!(|context: &mut FormatContext| { *context = copy.clone(); });\n}", "read-modify-write outside the lock")

m('elide_revealing_array_wrong_flag', ['C03'], 'src/base/elide.rs', "    pub fn elide_revealing_array_with_action(&self, target: &[&dyn DigestProvider], action: &ObscureAction) -> Self {\n        self.elide_array_with_action(target, true, action)", "    pub fn elide_revealing_array_with_action(&self, target: &[&dyn DigestProvider], action: &ObscureAction) -> Self {\n        self.elide_array_with_action(target, false, action)", "one convenience variant passes the wrong mode")
m('add_signatures_skips_first', ['C09'], 'src/extension/signature/signature_impl.rs', "        private_keys\n            .iter()\n            .fold(self.clone(), |envelope, private_key| { envelope.add_signature(*private_key) })", "        private_keys\n            .iter().skip(1)\n            .fold(self.clone(), |envelope, private_key| { envelope.add_signature(*private_key) })")
m('add_optional_assertion_envelope_none_wraps', ['C07'], 'src/base/assertions.rs', "            None => Ok(self.clone()),\n        }\n    }\n\n    /// Adds an assertion with the given predicate and optional object.", "            None => Ok(self.wrap_envelope()),\n        }\n    }\n\n    /// Adds an assertion with the given predicate and optional object.", "None is no longer the identity")
m('hex_opt_panics_on_elided', ['C16'], 'src/base/format.rs', "    pub fn hex_opt(&self, annotate: bool, context: Option<&FormatContext>) -> String {", "    pub fn hex_opt(&self, annotate: bool, context: Option<&FormatContext>) -> String {\n        assert!(!self.is_elided() || annotate);")

SECOND = {'once_replaced_by_check_then_init': ('src/base/format_context.rs', "            *self.data.lock().unwrap() = Some(context);\n        });\n        self.data.lock().unwrap()", "            *self.data.lock().unwrap() = Some(context);\n        }\n        self.data.lock().unwrap()")}

RES = '/verif/mutants/results.json'
def load(): return json.load(open(RES)) if os.path.exists(RES) else {}
def save(r): json.dump(r, open(RES, 'w'), indent=1, sort_keys=True)
def apply(root, name):
    mu = M[name]; p = os.path.join(root, mu['path']); s = open(p).read()
    if mu['old'] not in s: return False
    s = s.replace(mu['old'], mu['new'], 1); open(p, 'w').write(s)
    if name in SECOND:
        path, old, new = SECOND[name]; p2 = os.path.join(root, path); s2 = open(p2).read()
        if old not in s2: return False
        open(p2, 'w').write(s2.replace(old, new, 1))
    return True
def sh(cmd, **kw): return subprocess.run(cmd, shell=True, capture_output=True, text=True, **kw)

def suite(names):
    wt = '/tmp/wt-mutants'
    sh(f'git -C /repo worktree remove --force {wt}'); sh(f'rm -rf {wt}')
    r = sh(f'git -C /repo worktree add --detach {wt} HEAD'); assert r.returncode == 0, r.stderr
    res = load()
    try:
        for n in names:
            sh(f'git -C {wt} checkout -- .')
            if not apply(wt, n): res.setdefault(n, {})['suite'] = 'PATTERN NOT FOUND'; save(res); print(n, 'PATTERN NOT FOUND'); continue
            diff = sh(f'git -C {wt} diff').stdout
            t = time.time()
            r = sh(f'cd {wt} && CARGO_TARGET_DIR=/tmp/wt-mutants-target CARGO_NET_OFFLINE=true timeout 600 cargo test --offline --lib --tests --no-fail-fast 2>&1')
            out = r.stdout
            failed = sorted(set(l.split()[1] for l in out.splitlines() if l.startswith('test ') and l.rstrip().endswith('FAILED')))
            comp = 'error: could not compile' in out or 'error[E' in out
            passed = sum(int(l.split()[3]) for l in out.splitlines() if l.startswith('test result'))
            res.setdefault(n, {}).update(suite=('compile-error' if comp else ('passes' if not failed else 'fails')), suite_failed_tests=failed, suite_passed=passed, diff=diff, props=M[n]['props'], note=M[n]['note'])
            save(res); print(f"{n}: compile_error={comp} passed={passed} failed_tests={failed} ({time.time()-t:.0f}s)", flush=True)
    finally:
        sh(f'git -C /repo worktree remove --force {wt}'); sh('rm -rf /tmp/wt-mutants-target')

def detect(names):
    res = load()
    assert sh('git -C /repo status --porcelain').stdout.strip() == '', '/repo has uncommitted changes'
    for n in names:
        try:
            if not apply('/repo', n): print(n, 'PATTERN NOT FOUND'); continue
            out = {}
            for p in M[n]['props']:
                r = sh(f'cd /verif && ./check {p} quick')
                sigs = [l.strip().split('signature: ')[1] for l in r.stdout.splitlines() if 'signature: ' in l]
                out[p] = dict(exit=r.returncode, violation_lines=r.stdout.count('VIOLATION property='), signatures=sigs[:6])
            res.setdefault(n, {}).update(detect=out, detected=all(v['exit'] == 1 for v in out.values()) if out else None)
            save(res); print(n, {p: (v['exit'], v['signatures'][:2]) for p, v in out.items()}, flush=True)
        finally:
            sh('git -C /repo checkout -- .')
    # leave evidence as of the unchanged tree
    print('restoring evidence for touched properties on the unchanged tree')
    for p in sorted(set(p for n in names for p in M[n]['props'])): sh(f'cd /verif && ./check {p} quick')

if __name__ == '__main__':
    mode = sys.argv[1]; names = sys.argv[2:] or list(M)
    {'suite': suite, 'detect': detect}[mode](names)
