#!/bin/bash
# Runs the repository's own suite (guard off) in the given checkout (default /repo) and prints pass/fail totals.
cd "${1:-/repo}" && cargo test --workspace --no-fail-fast --offline --lib --tests 2>&1 | awk '/^test result/ {p+=$4; f+=$6} /FAILED|panicked/ {print} END {print "passed=" p " failed=" f}'
