#!/usr/bin/env python3
"""Replaces the two generated tables of DESIGN.md section 12 by the current output of gen_detection_tables.py."""
import subprocess, re
out = subprocess.run(['python3', '/verif/tools/gen_detection_tables.py'], capture_output=True, text=True, check=True).stdout
t1, t2 = out.split('\n\n', 1)
p = '/verif/DESIGN.md'
lines = open(p).read().split('\n')
def replace(lines, header_prefix, table):
    i = next(k for k, l in enumerate(lines) if l.startswith(header_prefix))
    j = i
    while j < len(lines) and lines[j].startswith('|'): j += 1
    return lines[:i] + table.rstrip('\n').split('\n') + lines[j:]
lines = replace(lines, '| change (my catalogue', t1)
lines = replace(lines, '| seeded change (sub-agent', t2)
open(p, 'w').write('\n'.join(lines))
print('spliced', len(t1.split('\n')), len(t2.rstrip().split('\n')))
