# Table of claimed checks; exec'd by gen_manifest.py
NA = {}
NOTES = ("Every check is `./check <Cxx> quick|thorough`; it rebuilds the harness against /repo's working tree, runs an exhaustive bounded enumeration "
         "on the real implementation against an independent reference model, rewrites evidence/<Cxx>.json, prints KNOWN-FINDING lines for entries of "
         "known_findings.json and VIOLATION lines for anything else. Exit 2 = machinery error, never a verdict.")
HOOKS = {
    "guard": "cargo feature verif_hooks",
    "enable": "harness-conc depends on bc-envelope with features=[\"verif_hooks\",\"multithreaded\"]; all other checks use the public API with default features",
    "baseline_off_cmd": "cd /repo && (cargo nextest run --workspace --no-fail-fast --tool-config-file pb:/w/lib/nextest.toml --profile pb --test-threads 8 --offline || cargo test --workspace --no-fail-fast --offline)",
    "source_commits": ["9c9df7c"],
    "add_only": True,
}
claim("C01", "model_checking", "explicit-state BFS over operation sequences + exhaustive tree/route/obscuration enumeration against an independent digest model",
      "Every tree up to the weight bound, built along every insertion permutation and route, every obscuration pattern, and every state of a bounded-depth breadth-first search over the public mutators is compared position by position with digests computed by an independent implementation of the specification (own SHA-256 and dCBOR).",
      "Trusted: my reading of draft-mcnally-envelope-09 (anchored to its worked digests at start-up); bounds on tree weight, alphabets and depth as reported in the evidence.")
claim("C02", "exploration", "exhaustive enumeration of target subsets x modes x actions on all trees up to a weight bound (two passes), position-wise digest oracle",
      "All trees up to the weight bound x all subsets of their digests (plus an absent one) x removing/revealing x Elide/Encrypt/Compress, then the same menu again on every distinct result, plus the whole-envelope operations: root digest and every surviving position's digest compared with the original. Exhaustive within the bounds, so it is an exploration-level coverage statement rather than a proof.",
      "Bounds on tree weight; atoms from a 3-element alphabet; a panic on an already-obscured target is 'no result' here and is C16's business.")
claim("C03", "exploration", "exhaustive enumeration of elisions against the statement's own hidden/visible semantics + byte-exact model encoding + marker residue search",
      "Every tree (unique leaf markers; also re-used markers for multi-position targets) x every target subset x both modes x three actions is compared with a model of the statement (hidden iff own or ancestor digest targeted; visible iff own and all ancestors targeted); Elide results must serialise to exactly the model's bytes and contain no hidden marker; all (placeholder, candidate) pairs for unelide.",
      "Residue = dCBOR encoding of hidden leaves (unique markers >= 3 bytes); already-obscured targeted elements may stay in any obscured form.")
claim("C04", "model_checking", "explicit-state breadth-first search over public operation sequences on real envelopes with an invariant evaluated in every state",
      "BFS from every small envelope (and decode-only shapes) over ~55 parameterised operations; every distinct state is checked by independent digest recomputation, strict ordering / uniqueness / slot-kind checks, an independent dCBOR+CDDL recogniser on its bytes and a decode round trip; receiver immutability on every expansion.",
      "Depth and root bounds as reported; operations with random output use fixed material so the state key (cases, digests, leaf bytes) determines futures.")
claim("C05", "exploration", "exhaustive round-trip enumeration over the leaf alphabet x positions and trees x obscuration patterns",
      "Every leaf value of the alphabet at six position kinds, every tree up to the bound under every obscuration pattern and the decode-only shapes: encode, decode, compare case+digest position by position, is_identical_to, re-encode, compare with the model's CDDL bytes, UR round trip.",
      "Leaf alphabet chosen per CBOR head-width boundary and per CBOR case; values outside it are not covered.")
claim("C06", "exploration", "exhaustive input-family enumeration (all short byte strings, all single-byte edits, structural mutation grammar) against an independent recogniser",
      "Four exhaustive families of byte strings - valid encodings, single/double structural mutations and non-deterministic re-encodings, every single-byte replace/delete/insert, and ALL byte strings up to a length bound bare and tagged - each judged: Err, or Ok with identical re-encoding (tag-24 alias only), and Ok is a violation when the independent recogniser rejects for a reason the statement names. Runs in a child process so aborts are attributed.",
      "My recogniser is stricter/looser than dcbor only in ways that cannot raise an alarm: 'impl rejects, recogniser accepts' is counted, not reported; NFC is not checked.")
claim("C07", "model_checking", "exhaustive permutations-with-repetition of insertions + algebraic laws checked at every state of the explicit-state search + collection inputs in every insertion order",
      "Every insertion sequence up to the length bound over a 7-element assertion pool x 5 subjects x 3 add APIs grouped by resulting set (byte identity + model bytes); add-present / add-remove / wrap-unwrap / immutability laws at every BFS state; Vec/HashMap/HashSet/Map/Set inputs built in every insertion order in fresh instances.",
      "Hash iteration order cannot be injected: fresh instances per order make an order-dependent encoder visible with overwhelming probability, stated in the evidence.")
claim("C08", "fault_enumeration", "exhaustive single-bit and single-field fault injection on every encrypted element + all (content, declared digest) forgery pairs",
      "Every tree x keys x nonces x three encryption entry points round-trips identically with the model digest; wrong key, EVERY single-bit flip of ciphertext/nonce/tag/AAD re-wrapped through the decoder, field swaps and AAD removal must give Err; every ordered (plaintext X, declared digest Y) forgery bare and as node subject must give Err; second encryption refused.",
      "Keys are data values from a finite set; AEAD strength is exercised, not analysed.")
claim("C09", "exploration", "exhaustive enumeration of signer subsets x schemes x obscuration patterns x key lists x thresholds against a signer-set model, with adversarial 'signed' assertions",
      "For each base tree, signer subset and scheme assignment: as-is, later assertions, every obscuration pattern of non-signature parts, transplanted signatures and a menu of adversarial 'signed' assertions; every key through every verification API, every key list (<=3 with repetition) x every threshold; returned metadata independently checked for coverage by the same key.",
      "'verifies' = Ok(true)/Ok(envelope); Ok(false) and Err are both 'does not verify'. ML-DSA keys cannot be seeded.")
claim("C10", "exploration", "exhaustive recipient lists x private keys enumeration; all sender/recipient scheme pairs for seal/unseal",
      "Every tree x every recipient list (with repetition) x every listed and never-listed private key through decrypt_subject_to_recipient, the wrap form, add_recipient for every ordered pair, and seal/unseal with right/wrong sender/recipient.",
      "Finite key set incl. X25519 and ML-KEM levels; ML-KEM keys cannot be seeded.")
claim("C11", "exploration", "exhaustive enumeration of SSKR policies x all share subsets against a policy model, plus mixed splits",
      "Every policy within (groups, members) bounds x EVERY subset of the generated share envelopes (both orders): join is Ok(original subject) iff the policy model is satisfied, else Err; never another envelope, never a panic; unions of subsets from two splits with different and equal identifiers.",
      "Share generation through sskr_split_using with seeded generators.")
claim("C12", "exploration", "exhaustive enumeration of target subsets (present/absent) with completeness, root-only verifier acceptance, digest-stated minimality and soundness against other targets / envelopes / mutated proofs",
      "Every tree (both marker instantiations) x every non-empty digest subset with and without an absent digest: proof iff all present; produced proofs have the root digest, are accepted by a verifier holding only the root digest, disclose only path elements; every other target set, every other envelope and single-element mutations are rejected unless genuinely valid.",
      "Minimality is stated by digest so repeated content cannot raise an alarm.")
claim("C13", "model_checking", "explicit-state BFS over {compress, compress_subject, uncompress, uncompress_subject, add, wrap, encode-decode} with laws at every state + exhaustive bit-flip fault injection",
      "At every state: digest invariance of the four (un)compress operations, round-trip and idempotence laws also with an assertion added in between; every bit of compressed data / checksum / size flipped, digest replaced, content-vs-declared-digest forgeries bare and as node subject.",
      "A flip that leaves the inflated bytes unchanged is not corruption.")
claim("C14", "exploration", "all ordered pairs (and triples) of an exhaustively generated variant family judged by (model digest, observed obscuration pattern)",
      "Per base tree the family {original, every obscuration pattern under Elide/Encrypt(k0)/Encrypt(k1)/Compress, two-action mixes, re-decoded copies, unrelated envelopes}; is_equivalent_to, is_identical_to, == and structural_digest equality on ALL ordered pairs against the oracle, transitivity on triples.",
      "The variant family per base is capped (reported); within the cap all pairs are compared.")
claim("C15", "exploration", "exhaustive enumeration of trees x obscuration patterns with both walks compared to an independent traversal as multisets of (path, depth, edge, parent context); all level limits; all predicates; extraction over integer boundaries x types",
      "Structure and tree walks, elements_count, digests(l) for every l, accessors, predicate lookups (present, through an elided predicate, absent) with error kinds, and typed extraction: stored value or error, never another value.",
      "Sibling order and tree-mode edge kinds are not compared; node-subject-of-node parents in tree mode are unspecified.")
claim("C16", "exploration", "exhaustive cross product of an envelope family (shapes, decorated/obscured special assertions, adversarially decoded mutants) x ~230 public operations inside catch_unwind, keyed by panic site",
      "Every operation of the query / transform / obscure / verify / parse / format families on every envelope of the family; a panic is a violation keyed by its source location, so a new site is a new finding even in a known operation.",
      "Documented builder preconditions are outside the menus.")
claim("C17", "exploration", "one envelope per serialised size (every value up to the bound) x scripted generator answers (boundary + Lemire rejection zone); all explicit lengths and ranges; all pairs of byte streams",
      "Result = original + exactly one 'salt' assertion whose length is inside the documented range, both ends of each range reached by some script (non-vacuity); short requests refused; decorrelation across byte streams and determinism under equal scripts; salted-add structure and unsalted determinism.",
      "OS randomness is a trusted base; add_assertion_salted has no generator seam (smoke-checked for decorrelation).")
claim("C18", "exploration", "exhaustive enumeration of functions x parameter lists x values x notes x dates x response variants round-tripped; breadth-first malformed variants over a mutation alphabet",
      "value -> envelope -> parse (direct and via serialisation) == value; documented shape observed; expected-function check against every function; every malformed variant to the mutation depth judged by counting result/error/body/content assertions and the subject tag independently.",
      "Bounds on list length and mutation depth as reported.")
claim("C19", "exploration", "exhaustive sequences (order, repetition) of attachments x all 16 filters x single-result error kinds; every single malformation; every type subset x every type query",
      "attachments() returns exactly the added set with identical payload/vendor/conformsTo via both add routes; filters equal the model filter; none/several map to the right errors; any malformed attachment assertion makes the query fail; type checks true exactly for added types.",
      "Any error is accepted for malformed attachments.")

claim("C20", "model_checking", "loom (DPOR with iterated preemption bounding) over the REAL lazy registries and formatter through the verif_hooks synchronisation seam; per-call sequential reference + quiescent-state probe",
      "Every configuration of 2..4 threads with 1..2 operations each on one shared envelope is explored exhaustively within the preemption bound; every acquire, release, once-entry and once-exit of the five registries is a scheduling point, registries are reset to never-initialised at the start of every execution so first-use races occur in every schedule. Every execution must terminate (loom reports deadlock = no runnable thread, and any panic / poisoned lock), every call must return a text it returns in some sequential order on fresh registries, and the quiescent state must equal a sequential final state.",
      "Threads <= 4 (loom's limit; the statement says 2..16); dcbor is explored through a vendored copy differing in three lines; loom models sequentially consistent interleavings at lock/once operations, which is all the shared access this crate has (no unsafe, no atomics).",
      "DESIGN.md sections 4 (C20) and 5")
