# Table of claimed checks; exec'd by gen_manifest.py
NA = {}
NOTES = ("Every check is `./check <Cxx> quick|thorough`; it rebuilds the harness against /repo's working tree, runs an exhaustive bounded enumeration "
         "on the real implementation against an independent reference model, rewrites evidence/<Cxx>.json, prints KNOWN-FINDING lines for entries of "
         "known_findings.json and VIOLATION lines for anything else. Exit 2 = machinery error, never a verdict.")
HOOKS = {
    "guard": "cargo feature verif_hooks",
    "enable": "harness-conc depends on bc-envelope with features=[\"verif_hooks\",\"multithreaded\"]; all other checks use the public API with default features",
    "baseline_off_cmd": "cd /repo && (cargo nextest run --workspace --no-fail-fast --tool-config-file pb:/w/lib/nextest.toml --profile pb --test-threads 8 --offline || cargo test --workspace --no-fail-fast --offline)",
    "source_commits": [],
    "add_only": True,
}
claim("C01", "model_checking", "explicit-state BFS over operation sequences + exhaustive tree/route/obscuration enumeration against an independent digest model",
      "Every tree up to the weight bound, built along every insertion permutation and route, every obscuration pattern, and every state of a bounded-depth breadth-first search over the public mutators is compared position by position with digests computed by an independent implementation of the specification (own SHA-256 and dCBOR).",
      "Trusted: my reading of draft-mcnally-envelope-09 (anchored to its worked digests at start-up); bounds on tree weight, alphabets and depth as reported in the evidence.")
