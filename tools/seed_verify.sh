#!/bin/bash
# usage: seed_verify.sh <Cxx> [suffix]   -- confirms a sub-agent's seeded change in its scratch worktree /tmp/seed-<Cxx><suffix>:
#   with the change: crate builds, the repository's own tests pass, the demonstration fails; without it: the demonstration passes.
# On success copies patch.diff / demo_test.rs / meta.json to /verif/seeded/<Cxx><suffix>/ and appends what was run to meta.json.
id="$1"; sfx="${2:-}"; wt="${3:-/tmp/seed-$id$sfx}"; out="/verif/seeded/$id$sfx"
cd "$wt" || exit 2
export CARGO_NET_OFFLINE=true
[ -f seed/patch.diff ] && [ -f seed/demo_test.rs ] && [ -f seed/meta.json ] || { echo "deliverables missing"; exit 2; }
git checkout -q -- src; git apply seed/patch.diff || { echo "patch does not apply"; exit 2; }
cp seed/demo_test.rs tests/seed_demo.rs
with=$(cargo test --offline --lib --tests --no-fail-fast 2>&1)
comp=$(echo "$with" | grep -c "error: could not compile\|error\[E")
suite_failed=$(echo "$with" | grep "^test " | grep "FAILED" | grep -v "seed_demo" | grep -vc "^test seed\|^test demo")
demo_with=$(cargo test --offline --test seed_demo 2>&1 | grep "^test result")
existing_failed=$(cd "$wt" && mv tests/seed_demo.rs /tmp/seed_demo_$id.rs && cargo test --offline --lib --tests --no-fail-fast 2>&1 | awk '/^test result/ {p+=$4; f+=$6} END {print "passed=" p " failed=" f}'; mv /tmp/seed_demo_$id.rs tests/seed_demo.rs)
git checkout -q -- src
demo_without=$(cargo test --offline --test seed_demo 2>&1 | grep "^test result")
git apply seed/patch.diff
echo "compile_errors=$comp | existing suite with change: $existing_failed | demo with change: $demo_with | demo without change: $demo_without"
ok=1
echo "$existing_failed" | grep -q "passed=94 failed=0" || ok=0
echo "$demo_with" | grep -q "FAILED" || ok=0
echo "$demo_without" | grep -q "ok\." || ok=0
if [ $ok = 1 ]; then
  mkdir -p "$out"; cp seed/patch.diff "$out/patch.diff"; cp seed/demo_test.rs "$out/demo_test.rs"
  python3 - "$out" "$existing_failed" "$demo_with" "$demo_without" <<'PY'
import json,sys
out,ex,dw,dwo=sys.argv[1:5]
m=json.load(open('seed/meta.json'))
m['confirmed_by_me']={'existing_suite_with_change':ex,'demo_with_change':dw.strip(),'demo_without_change':dwo.strip(),'how':'tools/seed_verify.sh in the scratch worktree (cargo test --offline --lib --tests; cargo test --test seed_demo with and without the patch)'}
json.dump(m,open(out+'/meta.json','w'),indent=1)
PY
  echo "CONFIRMED -> $out"
else echo "NOT CONFIRMED"; fi
