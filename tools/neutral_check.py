#!/usr/bin/env python3
"""False-alarm test: applies the behaviour-preserving refactorings kept under /verif/neutral/<id>/patch.diff to /repo (all together, or the
ids given on the command line), runs every quick check, and expects exit 0 from each (KNOWN-FINDING lines are fine). Reverts /repo afterwards.
usage: tools/neutral_check.py [--benign] [--each] [ids...]   (--benign: the changes under /verif/benign, which alter behaviour the properties leave open)"""
import subprocess, sys, os, json
ROOT = '/verif/benign' if '--benign' in sys.argv else '/verif/neutral'
ids = [a for a in sys.argv[1:] if not a.startswith('--')] or sorted(os.listdir(ROOT))
ids = [i for i in ids if os.path.isdir(f'{ROOT}/{i}')]
each = '--each' in sys.argv
assert subprocess.run(['git', '-C', '/repo', 'status', '--short'], capture_output=True, text=True).stdout.strip() == '', '/repo is not clean'
groups = [[i] for i in ids] if each else [ids]
bad = []
for g in groups:
    try:
        for i in g: subprocess.run(['git', '-C', '/repo', 'apply', f'{ROOT}/{i}/patch.diff'], check=True)
        for c in [f'C{n:02d}' for n in range(1, 21)]:
            r = subprocess.run(['./check', c, 'quick'], cwd='/verif', capture_output=True, text=True)
            v = [l for l in r.stdout.splitlines() if l.startswith('VIOLATION')]
            print(','.join(g), c, 'exit', r.returncode, 'violations', len(v), flush=True)
            if r.returncode != 0 or v: bad.append((g, c, r.returncode, v[:3]))
    finally:
        subprocess.run(['git', '-C', '/repo', 'checkout', '--', '.'])
json.dump({'groups': groups, 'alarms': bad}, open(f'{ROOT}/result.json', 'w'), indent=1)
print('ALARMS:', bad if bad else 'none')
sys.exit(1 if bad else 0)
