#!/usr/bin/env python3
"""Regenerates /verif/MANIFEST.json from the table below (one place to keep the 20 entries consistent)."""
import json, os
HERE = os.path.dirname(os.path.dirname(os.path.abspath(__file__)))
props = [json.loads(l) for l in open(os.path.join(HERE, 'properties.jsonl'))]
ids = [p['id'] for p in props]

# id -> (level, technique, level text, level_note, design_ref)
T = {}
def claim(i, level, technique, text, note, ref=None):
    T[i] = dict(level=level, technique=technique, text=text, note=note, ref=ref or f"DESIGN.md section 4, {i}")

exec(open(os.path.join(HERE, 'tools', 'claims.py')).read())

checks = []
for i in ids:
    if i not in T: continue
    t = T[i]
    checks.append({
        "property_id": i,
        "quick_cmd": f"./check {i} quick",
        "thorough_cmd": f"./check {i} thorough",
        "evidence_file": f"/verif/evidence/{i}.json",
        "replay_cmd_template": f"./check {i} --replay {{path}}",
        "engine": "harness-conc (loom)" if i == "C20" else "harness (vh)",
        "level_claimed": {"category": t['level'], "text": t['text'], "design_ref": t['ref']},
        "level_note": t['note'],
        "technique": t['technique'],
    })
na = [{"property_id": i, "reason": NA.get(i, "check not built yet in this session; see DESIGN.md for the planned decision procedure")} for i in ids if i not in T]
m = {
    "version": 1,
    "setup_cmd": "./setup.sh",
    "hooks": HOOKS,
    "engines": [
        {"name": "harness (vh)", "path": "/verif/harness", "serves_properties": [i for i in ids if i in T and i != "C20"],
         "kind_free_text": "Rust binary linked against /repo by path: independent reference model (own SHA-256, dCBOR, spec digest rules, CDDL recogniser), exhaustive generators, explicit-state BFS explorer over real Envelope values"},
        {"name": "harness-conc (loom)", "path": "/verif/harness-conc", "serves_properties": [i for i in ids if i in T and i == "C20"],
         "kind_free_text": "loom exploration of the real lazily initialised registries and formatter through the verif_hooks synchronisation seam"},
    ],
    "checks": checks,
    "not_applicable": na,
    "notes": NOTES,
}
json.dump(m, open(os.path.join(HERE, 'MANIFEST.json'), 'w'), indent=1)
print("wrote MANIFEST.json with", len(checks), "checks,", len(na), "not claimed")
