#!/usr/bin/env python3
"""Prints the markdown tables of section 12 of DESIGN.md from mutants/results.json and seeded/*/meta.json."""
import json, os
def esc(x): return x.replace('|', '\\|')
r = json.load(open('/verif/mutants/results.json'))
print("| change (my catalogue, `tools/mutants.py`) | repository suite | checks run | verdict | first signature |")
print("|---|---|---|---|---|")
for k in sorted(r):
    v = r[k]
    det = v.get('detect') or {}
    suite = v.get('suite', '?')
    if suite == 'fails': suite = 'fails (' + ', '.join(v.get('suite_failed_tests', [])[:2]) + ')'
    if v.get('suite_passed') not in (94, None) and suite == 'passes': suite = f"hangs / incomplete ({v.get('suite_passed')} ran)"
    checks = ', '.join(det.keys()) or '-'
    verdict = 'EQUIVALENT MUTANT (not run)' if not v.get('props') else ('detected by ' + ', '.join(p for p, x in det.items() if x['exit'] == 1) if any(x['exit'] == 1 for x in det.values()) else 'NOT DETECTED')
    missed = [p for p, x in det.items() if x['exit'] != 1]
    if missed and any(x['exit'] == 1 for x in det.values()): verdict += ' (not by ' + ', '.join(missed) + ')'
    sig = next((x['signatures'][0] for x in det.values() if x.get('signatures')), '')
    print(f"| `{k}` {('- ' + v['note']) if v.get('note') else ''} | {suite} | {checks} | {verdict} | `{esc(sig[:90])}` |")
print()
print("| seeded change (sub-agent, `seeded/<id>/`) | what it needs to manifest | detected by | first signature |")
print("|---|---|---|---|")
for i in sorted(os.listdir('/verif/seeded')):
    m = json.load(open(f'/verif/seeded/{i}/meta.json'))
    det = m.get('detection', {})
    by = ', '.join(f"{p} ({x['tier']})" for p, x in det.items() if x['exit'] == 1) or 'NOT DETECTED'
    sig = next((x['signatures'][0] for x in det.values() if x.get('signatures')), '')
    print(f"| {i}: {m.get('summary','')[:160]} | {m.get('needs_to_manifest','')[:140]} | {by} | `{esc(sig[:80])}` |")
