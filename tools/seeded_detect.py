#!/usr/bin/env python3
"""Applies each /verif/seeded/<id>/patch.diff to /repo, runs the named checks (quick; also thorough with --thorough), records what was
reported in seeded/<id>/meta.json under "detection", and undoes the change straight afterwards (git -C /repo checkout -- .)."""
import json, os, subprocess, sys
def sh(c): return subprocess.run(c, shell=True, capture_output=True, text=True)
args = [a for a in sys.argv[1:] if not a.startswith('--')]
tier = 'thorough' if '--thorough' in sys.argv else 'quick'
ids = args or sorted(os.listdir('/verif/seeded'))
assert sh('git -C /repo status --porcelain').stdout.strip() == '', '/repo has uncommitted changes'
touched = set()
for i in ids:
    d = f'/verif/seeded/{i}'
    if not os.path.exists(f'{d}/patch.diff'): continue
    meta = json.load(open(f'{d}/meta.json'))
    props = meta.get('checks_expected') or [meta['property']]
    try:
        r = sh(f'git -C /repo apply {d}/patch.diff')
        if r.returncode != 0: print(i, 'PATCH DOES NOT APPLY', r.stderr[:200]); continue
        det = {}
        for p in props:
            r = sh(f'cd /verif && ./check {p} {tier}')
            sigs = [l.split('signature: ')[1].strip() for l in r.stdout.splitlines() if 'signature: ' in l]
            det[p] = {'tier': tier, 'exit': r.returncode, 'violation_lines': r.stdout.count('VIOLATION property='), 'signatures': sigs[:5]}
            touched.add(p)
        meta.setdefault('detection', {}).update(det)
        meta['detected'] = any(v['exit'] == 1 for v in meta['detection'].values())
        json.dump(meta, open(f'{d}/meta.json', 'w'), indent=1)
        print(i, {p: (v['exit'], v['signatures'][:2]) for p, v in det.items()}, flush=True)
    finally:
        sh('git -C /repo checkout -- .')
print('re-running the touched checks on the unchanged tree so that committed evidence describes it')
for p in sorted(touched):
    r = sh(f'cd /verif && ./check {p} quick'); print(p, 'exit', r.returncode)
