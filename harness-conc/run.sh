#!/bin/bash
# C20 entry point: builds the loom harness against /repo (feature verif_hooks) and runs it.
set -u
HERE="$(cd "$(dirname "${BASH_SOURCE[0]}")" && pwd)"
ROOT="$(dirname "$HERE")"
export CARGO_NET_OFFLINE=true
# anyhow captures a backtrace for every error value when RUST_BACKTRACE is set: milliseconds per error under a global lock
export RUST_BACKTRACE=0 RUST_LIB_BACKTRACE=0
export VERIF_ROOT="$ROOT"
export CARGO_TARGET_DIR="$ROOT/.target-conc"
mkdir -p "$ROOT/.logs" "$ROOT/evidence"
log="$ROOT/.logs/build-conc.log"
if ! ( flock 9; cargo build --release --offline --manifest-path "$HERE/Cargo.toml" >"$log" 2>&1 ) 9>"$ROOT/.logs/build-conc.lock"; then
  echo "MACHINERY: loom harness build failed (see $log)"; tail -30 "$log"; exit 2
fi
if [ "${1:-}" = "--build-only" ]; then exit 0; fi
"$CARGO_TARGET_DIR/release/vc" "$@"
rc=$?
if [ $rc -ne 0 ] && [ $rc -ne 1 ]; then echo "MACHINERY: engine exited with status $rc (not a verdict)"; exit 2; fi
exit $rc
