//! C20 - registries and formatting under concurrent use: loom exploration of the REAL lazy registries and formatter
//! through the verif_hooks synchronisation seam (DESIGN sections 4 C20 and 5).
use bc_envelope::prelude::*;
use dcbor::TagsStoreTrait;
use loom::sync::{Condvar, Mutex};
use serde_json::{json, Value};
use std::collections::{BTreeMap, BTreeSet, HashMap};
use std::sync::atomic::{AtomicUsize, Ordering};
mod model16;
macro_rules! outln { ($($a:tt)*) => { { use std::io::Write; let _ = writeln!(std::io::stdout(), $($a)*); } } }

static ITERS: AtomicUsize = AtomicUsize::new(0);
static EVENTS: AtomicUsize = AtomicUsize::new(0);
static EPOCH: AtomicUsize = AtomicUsize::new(1);
static TRACE: std::sync::Mutex<Vec<String>> = std::sync::Mutex::new(Vec::new());
static NAMES: std::sync::Mutex<Vec<(usize, &'static str)>> = std::sync::Mutex::new(Vec::new());
/// structured copy of the lock trace of the current execution, for the model of part 5 (model16.rs)
static EVLOG: std::sync::Mutex<Vec<model16::Ev>> = std::sync::Mutex::new(Vec::new());
fn tnum() -> u32 { tid().chars().filter(|c| c.is_ascii_digit()).collect::<String>().parse().unwrap_or(999) }

#[derive(Clone, Copy, PartialEq)]
enum OnceSt { Idle, Running, Done }
struct Sem { held: Mutex<bool>, cv: Condvar }
struct OnceM { st: Mutex<OnceSt>, cv: Condvar }
struct World { sems: Mutex<HashMap<usize, std::sync::Arc<Sem>>>, onces: Mutex<HashMap<usize, std::sync::Arc<OnceM>>> }
loom::lazy_static! { static ref W: World = World { sems: Mutex::new(HashMap::new()), onces: Mutex::new(HashMap::new()) }; }
fn sem(id: usize) -> std::sync::Arc<Sem> { let mut m = W.sems.lock().unwrap(); m.entry(id).or_insert_with(|| std::sync::Arc::new(Sem { held: Mutex::new(false), cv: Condvar::new() })).clone() }
fn oncem(id: usize) -> std::sync::Arc<OnceM> { let mut m = W.onces.lock().unwrap(); m.entry(id).or_insert_with(|| std::sync::Arc::new(OnceM { st: Mutex::new(OnceSt::Idle), cv: Condvar::new() })).clone() }
fn short(what: &'static str) -> &'static str { what.rsplit("::").next().unwrap_or(what).trim_end_matches('>') }
fn tid() -> String { format!("{:?}", loom::thread::current().id()) }
fn trace(ev: &str, id: usize) {
    EVENTS.fetch_add(1, Ordering::Relaxed);
    let name = NAMES.lock().unwrap().iter().find(|(i, _)| *i == id).map(|(_, n)| *n).unwrap_or("?");
    let mut t = TRACE.lock().unwrap(); if t.len() < 4000 { t.push(format!("{} {} {}#{:x}", tid(), ev, name, id & 0xffff)) }
    let kind = match ev { "acquire?" => 0, "acquired" => 1, "released" => 2, "once-enter" => 3, "once-exit" => 4, _ => 5 };
    let mut l = EVLOG.lock().unwrap(); if l.len() < 20000 { l.push((tnum(), kind, id)) }
}
fn acquire(id: usize, what: &'static str) {
    { let mut n = NAMES.lock().unwrap(); if !n.iter().any(|(i, _)| *i == id) { n.push((id, short(what))) } }
    trace("acquire?", id);
    let s = sem(id);
    let mut g = s.held.lock().unwrap();
    while *g { g = s.cv.wait(g).unwrap(); }
    *g = true;
    trace("acquired", id);
    drop(g);
}
fn release(id: usize) { let s = sem(id); let mut g = s.held.lock().unwrap(); *g = false; trace("released", id); drop(g); s.cv.notify_one(); }
fn once(id: usize, init: &mut dyn FnMut()) {
    let o = oncem(id);
    let mut g = o.st.lock().unwrap();
    loop {
        match *g {
            OnceSt::Done => { trace("once-done", id); drop(g); return }
            OnceSt::Running => { g = o.cv.wait(g).unwrap(); }
            OnceSt::Idle => {
                *g = OnceSt::Running; trace("once-enter", id); drop(g);
                init();
                let mut g2 = o.st.lock().unwrap(); *g2 = OnceSt::Done; trace("once-exit", id); drop(g2); o.cv.notify_all();
                return;
            }
        }
    }
}
fn epoch() -> usize { EPOCH.load(Ordering::SeqCst) }

pub const OPS: [&str; 16] = ["format", "format_flat", "tree_format(false)", "tree_format(true)", "diagnostic_annotated", "hex", "register_tags", "known_value_name", "functions_lookup", "parameters_lookup", "tags_lookup", "digest+encoding", "register_custom_tag", "known_values_guard_held_while_formatting", "functions_guard_held_while_formatting", "private_context_register_tags_in+format_opt"];
fn run_op(op: usize, e: &Envelope) -> String {
    match op {
        0 => e.format(),
        1 => e.format_flat(),
        2 => e.tree_format(false),
        3 => e.tree_format(true),
        4 => e.diagnostic_annotated(),
        5 => e.hex(),
        6 => { bc_envelope::register_tags(); String::new() }
        7 => { let g = known_values::KNOWN_VALUES.get(); let s = g.as_ref().unwrap(); format!("{}|{}|{:?}", s.name(KnownValue::new(4)), s.name(KnownValue::new(9999)), s.known_value_named("isA").map(|k| k.value())) }
        8 => { let g = bc_envelope::extension::expressions::GLOBAL_FUNCTIONS.get(); let s = g.as_ref().unwrap(); format!("{}|{}", s.name(&Function::from(1u64)), s.name(&Function::from(99u64))) }
        9 => { let g = bc_envelope::extension::expressions::GLOBAL_PARAMETERS.get(); let s = g.as_ref().unwrap(); format!("{}|{}", s.name(&Parameter::from(1u64)), s.name(&Parameter::from(99u64))) }
        10 => dcbor::with_tags!(|t: &dcbor::TagsStore| format!("{}|{}|{}", t.name_for_value(200), t.name_for_value(40000), t.name_for_value(1))),
        11 => format!("{}|{}", hex(e.digest().data()), hex(&e.to_cbor_data())),
        // an application consulting a registry (the documented `let binding = KNOWN_VALUES.get();` pattern) and formatting while the binding is alive
        // (the format context is initialised first: holding a registry guard across FIRST-USE initialisation is outside the property)
        13 => { let _ = e.format_flat(); let g = known_values::KNOWN_VALUES.get(); let n = g.as_ref().unwrap().name(KnownValue::new(4)); let t = e.format_flat(); drop(g); format!("{n}|{t}") }
        14 => { let _ = e.format_flat(); let g = bc_envelope::extension::expressions::GLOBAL_FUNCTIONS.get(); let n = g.as_ref().unwrap().name(&Function::from(1u64)); let t = e.format_flat(); drop(g); format!("{n}|{t}") }
        // an application that builds its OWN format context (register_tags_in on a private FormatContext) and formats with it
        15 => { let mut ctx = FormatContext::default(); bc_envelope::register_tags_in(&mut ctx); e.format_opt(Some(&ctx)) }
        // (internal, not part of OPS) first-use initialisation alone, through a read access that formats nothing
        16 => { bc_envelope::with_format_context!(|_ctx: &FormatContext| {}); String::new() }
        // an application registering its own tag name in the global format context (the documented use of with_format_context_mut!)
        _ => { bc_envelope::with_format_context_mut!(|ctx: &mut FormatContext| { ctx.tags_mut().insert(dcbor::Tag::new(999, "custom-tag")); }); String::new() }
    }
}
fn hex(b: &[u8]) -> String { b.iter().map(|x| format!("{:02x}", x)).collect() }
/// one input per registry the formatter consults: a known-value predicate, a function and a parameter leaf, a tagged (date) leaf
fn shared_envelope() -> Envelope {
    Envelope::new("Alice")
        .add_assertion(known_values::NOTE, "hi")
        .add_assertion("f", Envelope::new(Function::from(1u64)).add_assertion(Envelope::new(Parameter::from(2u64)), 7))
        .add_assertion("when", dcbor::Date::from_timestamp(1720091471.0))
        .add_assertion("custom", CBOR::to_tagged_value(999, "payload"))
        .add_assertion(KnownValue::new(4242), Envelope::new(Function::from(4343u64)).add_assertion(Envelope::new(Parameter::from(4444u64)), KnownValue::new(4545)))
        // value-dependent corners of the formatters (a panic or a re-entrant lock while the global context is held poisons / blocks it for every
        // thread): a text leaf longer than the tree formatter's 40-character summary with multi-byte characters around the cut, and a leaf that
        // EMBEDS an envelope holding a known value (the formatter decodes and formats it while holding the context)
        .add_assertion("long", format!("{}é漢字{}", "x".repeat(39), "y".repeat(10)))
        .add_assertion("embedded", Envelope::new("inner").add_assertion(known_values::IS_A, "x").to_cbor())
}
type Config = Vec<Vec<usize>>;
fn run_program(p: &[usize], e: &Envelope) -> Vec<String> { p.iter().map(|op| run_op(*op, e)).collect() }
/// all interleavings of the programs that respect per-thread program order
fn orders(cfg: &Config) -> Vec<Vec<(usize, usize)>> {
    fn rec(cfg: &Config, pos: &mut Vec<usize>, cur: &mut Vec<(usize, usize)>, out: &mut Vec<Vec<(usize, usize)>>) {
        if pos.iter().zip(cfg).all(|(p, c)| *p == c.len()) { out.push(cur.clone()); return }
        for t in 0..cfg.len() { if pos[t] < cfg[t].len() { cur.push((t, pos[t])); pos[t] += 1; rec(cfg, pos, cur, out); pos[t] -= 1; cur.pop(); } }
    }
    let mut out = vec![]; rec(cfg, &mut vec![0; cfg.len()], &mut vec![], &mut out); out
}
/// what the main thread observes after every thread has finished (quiescent state): catches lost updates
fn final_probe(e: &Envelope) -> Vec<String> { vec![run_op(1, e), run_op(4, e), run_op(7, e), run_op(10, e)] }
pub struct Reference { allowed: Vec<Vec<BTreeSet<String>>>, finals: BTreeSet<Vec<String>>, joint: BTreeSet<Vec<Vec<String>>> }
/// Sequential reference: every order of the same operations (respecting program order), each run on freshly reset registries
/// (inside a one-thread loom execution so that the seam backend works). The property promises each call "the same text it returns
/// when run alone": alone at some point of a sequential order, so the oracle is PER CALL - the set of texts that call returns in
/// some sequential order - plus the quiescent final state. (Joint linearizability of all outputs is NOT required by the statement:
/// register_tags is two steps - lazy initialisation, which registers the component tag names, then installation of the summarizers -
/// and another thread may legitimately observe the state in between.)
fn reference(cfg: &Config) -> Reference {
    let acc = std::sync::Arc::new(std::sync::Mutex::new((cfg.iter().map(|p| p.iter().map(|_| BTreeSet::new()).collect::<Vec<_>>()).collect::<Vec<_>>(), BTreeSet::new(), BTreeSet::new())));
    let table = alone_table();
    for order in orders(cfg) {
        let (cfg2, acc2, table2) = (cfg.clone(), acc.clone(), table.clone());
        loom::model(move || {
            EPOCH.fetch_add(1, Ordering::SeqCst);
            let e = shared_envelope();
            let mut outs: Vec<Vec<String>> = cfg2.iter().map(|_| vec![]).collect();
            let mut flags = 0usize;
            for (t, i) in &order {
                let op = cfg2[*t][*i];
                let txt = run_op(op, &e);
                if let Some(tb) = &table2 { if tb[flags][op] != txt { panic!("CARRIED-STATE: in a sequential order the call {} returns a text that differs from the one it returns when run alone in a fresh process in the same registry state (state {}): {:?} instead of {:?}", OPS[op], flags, txt.replace('\n', "/").chars().take(200).collect::<String>(), tb[flags][op].replace('\n', "/").chars().take(200).collect::<String>()) } }
                flags = state_after(flags, op);
                outs[*t].push(txt)
            }
            let fin = final_probe(&e);
            if let Some(tb) = &table2 { let mut f2 = flags; let want: Vec<String> = [1usize, 4, 7, 10].iter().map(|o| { let w = tb[f2][*o].clone(); f2 = state_after(f2, *o); w }).collect(); if want != fin { panic!("CARRIED-STATE: the quiescent probe after a sequential order differs from the run-alone texts of the same registry state (state {}): {:?}", flags, fin.iter().map(|x| x.replace('\n', "/").chars().take(120).collect::<String>()).collect::<Vec<_>>()) } }
            let mut a = acc2.lock().unwrap();
            for (t, o) in outs.iter().enumerate() { for (i, s) in o.iter().enumerate() { a.0[t][i].insert(s.clone()); } }
            a.1.insert(fin); a.2.insert(outs);
        });
    }
    let a = acc.lock().unwrap().clone();
    Reference { allowed: a.0, finals: a.1, joint: a.2 }
}
/// registry state a call finds: bit 0 = register_tags() has completed, bit 1 = the custom tag name has been installed
/// bit 2 = the global format context has been lazily initialised (which also registers the tag names in dcbor's global store)
fn state_after(flags: usize, op: usize) -> usize { match op { 6 => flags | 1 | 4, 12 => flags | 2 | 4, 0 | 1 | 2 | 3 | 4 | 5 | 13 | 14 => flags | 4, _ => flags } }
const STATES: usize = 8;
/// `alone <flags> <op>`: a FRESH PROCESS brings the registries into the state and performs the one call - the text a call "returns when run alone"
fn alone(flags: usize, op: usize) {
    install();
    let out = std::sync::Arc::new(std::sync::Mutex::new(String::new()));
    let o2 = out.clone();
    loom::model(move || {
        EPOCH.fetch_add(1, Ordering::SeqCst);
        let e = shared_envelope();
        // initialisation alone, through a read access that formats nothing
        if flags & 4 != 0 { bc_envelope::with_format_context!(|_ctx: &FormatContext| {}); }
        if flags & 1 != 0 { run_op(6, &e); }
        if flags & 2 != 0 { run_op(12, &e); }
        *o2.lock().unwrap() = run_op(op, &e);
    });
    outln!("ALONE {}", json!(out.lock().unwrap().clone()));
}
fn alone_table() -> Option<Vec<Vec<String>>> { std::env::var("VC_ALONE_TABLE").ok().and_then(|p| std::fs::read_to_string(p).ok()).and_then(|s| serde_json::from_str(&s).ok()) }
fn install() {
    assert!(bc_envelope::verif_sync::install_backend(bc_envelope::verif_sync::Backend { acquire, release, once, epoch }));
    assert!(dcbor::verif_sync::install_backend(dcbor::verif_sync::Backend { acquire, release, once, epoch }));
}
/// Runs the operations of `seq` one after the other in ONE single-thread execution on never-initialised registries and returns
/// the lock / once event log of each.
fn record_single(seq: &[usize]) -> Vec<Vec<model16::Ev>> {
    let out = std::sync::Arc::new(std::sync::Mutex::new(Vec::new()));
    let (o2, seq2) = (out.clone(), seq.to_vec());
    loom::model(move || {
        EPOCH.fetch_add(1, Ordering::SeqCst);
        EVLOG.lock().unwrap().clear();
        let e = shared_envelope();
        let mut logs = vec![EVLOG.lock().unwrap().clone()]; // element 0: what building the shared envelope does
        for op in &seq2 { EVLOG.lock().unwrap().clear(); let _ = run_op(*op, &e); logs.push(EVLOG.lock().unwrap().clone()); }
        *o2.lock().unwrap() = logs;
    });
    let r = out.lock().unwrap().clone(); r
}
fn obj_name(id: usize) -> String { NAMES.lock().unwrap().iter().find(|(i, _)| *i == id).map(|(_, n)| n.to_string()).unwrap_or_else(|| "lock".into()) }
/// programs of the 16 operations + the internal init-only read (index 16) + building the shared envelope (index 17, BUILD), each
/// extracted from a run alone on never-initialised registries (after the envelope was built, as in every execution loom explores)
const BUILD: usize = 17;
fn extract_programs() -> Result<model16::Programs, String> {
    let mut p = model16::Programs::default();
    let build = record_single(&[]).remove(0);
    let mut tmp = model16::Programs::default(); tmp.add_op(&build, &obj_name).map_err(|e| format!("build: {e}"))?;
    p.objs = tmp.objs.clone(); p.names = tmp.names.clone(); p.bodies = tmp.bodies.clone();
    for op in 0..=16usize { let log = record_single(&[op]).pop().unwrap_or_default(); p.add_op(&log, &obj_name).map_err(|e| format!("{}: {e}", OPS.get(op).copied().unwrap_or("init-only")))?; }
    p.add_op(&build, &obj_name).map_err(|e| format!("build: {e}"))?;
    Ok(p)
}
/// `model16 <tier>`: extraction, single-thread validation in all 8 registry states, exhaustive exploration for every thread count 2..16
fn model16_main(tier: &str) {
    install();
    let t0 = std::time::Instant::now();
    let progs = match extract_programs() { Ok(p) => p, Err(e) => { outln!("MODEL16 {}", json!({"validated": false, "why": format!("extraction: {e}")})); return } };
    let n = OPS.len();
    // (2a) for every registry state and operation the model predicts the recorded single-thread event sequence
    let m1 = model16::Model { p: &progs, thread_programs: progs.ops.clone() };
    let mut checked = 0; let mut events = 0usize; let mut bad: Vec<String> = vec![];
    for flags in 0..STATES { for op in 0..n {
        let mut seq: Vec<usize> = vec![]; if flags & 4 != 0 { seq.push(16) } if flags & 1 != 0 { seq.push(6) } if flags & 2 != 0 { seq.push(12) } seq.push(op);
        let logs = record_single(&seq);
        let got: Vec<(u8, usize)> = logs.iter().flatten().filter(|e| e.1 != 0).map(|e| (e.1, e.2)).collect();
        match m1.predict(&std::iter::once(BUILD as u16).chain(seq.iter().map(|o| *o as u16)).collect::<Vec<_>>(), model16::Global { held: 0, running: 0, done: 0 }) {
            Ok((want, _)) => { if want != got { bad.push(format!("state {flags} op {}: the model predicts {} events, the code did {}", OPS[op], want.len(), got.len())) } }
            Err(e) => bad.push(format!("state {flags} op {}: {e}", OPS[op])),
        }
        checked += 1; events += got.len();
    } }
    // two operations in sequence, every ordered pair, from never-initialised registries
    for a in 0..n { for b in 0..n {
        let logs = record_single(&[a, b]);
        let got: Vec<(u8, usize)> = logs.iter().flatten().filter(|e| e.1 != 0).map(|e| (e.1, e.2)).collect();
        match m1.predict(&[BUILD as u16, a as u16, b as u16], model16::Global { held: 0, running: 0, done: 0 }) {
            Ok((want, _)) => { if want != got { bad.push(format!("sequence {};{}: model {} events, code {}", OPS[a], OPS[b], want.len(), got.len())) } }
            Err(e) => bad.push(format!("sequence {};{}: {e}", OPS[a], OPS[b])),
        }
        checked += 1; events += got.len();
    } }
    if !bad.is_empty() { outln!("MODEL16 {}", json!({"validated": false, "why": "single-thread validation", "mismatches": bad.iter().take(6).collect::<Vec<_>>(), "mismatch_count": bad.len()})); return }
    // (3) exploration. Thread programs: every single operation; menus: N threads of one kind, N split over two kinds, one thread of each kind
    let thorough = tier == "thorough";
    let cap: u64 = if thorough { 6_000_000 } else { 1_500_000 };
    let mut menus: Vec<(String, Vec<usize>)> = vec![];
    let ns: Vec<usize> = if thorough { (2..=16).collect() } else { vec![2, 3, 5, 8, 16] };
    for nthreads in &ns {
        for a in 0..n { let mut c = vec![0; n]; c[a] = *nthreads; menus.push((format!("{}x {}", nthreads, OPS[a]), c)); }
        for a in 0..n { for b in (a + 1)..n {
            let splits: Vec<usize> = if thorough { (1..*nthreads).collect() } else { let mut v = vec![1, nthreads / 2, nthreads - 1]; v.sort(); v.dedup(); v.retain(|x| *x >= 1 && *x < *nthreads); v };
            for k in splits { let mut c = vec![0; n]; c[a] = k; c[b] = nthreads - k; menus.push((format!("{}x {} + {}x {}", k, OPS[a], nthreads - k, OPS[b]), c)); }
        } }
    }
    if thorough { menus.push(("one thread of each of the 16 operations".into(), vec![1; n])); }
    { let mut c = vec![0; n]; for o in [0usize, 2, 4, 6, 7, 10, 12, 13, 15] { c[o] = 1 } menus.push(("one thread of each of 9 operations (format, tree_format, diagnostic_annotated, register_tags, known_value_name, tags_lookup, register_custom_tag, known_values_guard_held, private_context)".into(), c)); }
    for t in [[0usize, 6, 12], [1, 6, 7], [2, 10, 6], [4, 13, 6], [15, 6, 0], [5, 12, 14], [3, 8, 9]] { for per in [2usize, 5] { let mut c = vec![0; n]; for o in t { c[o] = per } if per == 5 { c[t[0]] = 6 } menus.push((format!("{}+{}+{} threads of {} / {} / {}", c[t[0]], per, per, OPS[t[0]], OPS[t[1]], OPS[t[2]]), c)); } }
    let reduced = progs.reduced();
    let model = model16::Model { p: &reduced, thread_programs: reduced.ops[..n].to_vec() };
    let g0 = m1.predict(&[BUILD as u16], model16::Global { held: 0, running: 0, done: 0 }).map(|x| x.1).unwrap_or(model16::Global { held: 0, running: 0, done: 0 });
    let results: Vec<(String, model16::Explored)> = {
        let next = AtomicUsize::new(0); let out = std::sync::Mutex::new(vec![]);
        std::thread::scope(|s| { for _ in 0..8 { s.spawn(|| loop { let k = next.fetch_add(1, Ordering::SeqCst); if k >= menus.len() { break } let r = model16::explore(&model, &menus[k].1, cap, &g0); out.lock().unwrap().push((menus[k].0.clone(), r)); }); } });
        out.into_inner().unwrap()
    };
    let states: u64 = results.iter().map(|r| r.1.states).sum(); let transitions: u64 = results.iter().map(|r| r.1.transitions).sum();
    let deadlocks: Vec<Value> = results.iter().filter_map(|(c, r)| r.deadlock.as_ref().map(|d| json!({"configuration": c, "what": d.chars().take(1500).collect::<String>()}))).collect();
    let capped: Vec<&String> = results.iter().filter(|r| r.1.capped).map(|r| &r.0).collect();
    let largest = results.iter().max_by_key(|r| r.1.states).map(|(c, r)| json!({"configuration": c, "states": r.states, "transitions": r.transitions, "most_threads_blocked_at_once": r.max_blocked}));
    outln!("MODEL16 {}", json!({"validated": true, "single_thread_sequences_predicted_exactly": checked, "events_compared": events, "model": progs.describe(),
        "programs": (0..n).map(|o| (OPS[o].to_string(), progs.show(&progs.ops[o]))).collect::<BTreeMap<_, _>>(),
        "programs_reduced_for_the_exploration": (0..n).map(|o| (OPS[o].to_string(), reduced.show(&reduced.ops[o]))).collect::<BTreeMap<_, _>>(),
        "thread_counts": ns, "configurations": results.len(), "states": states, "transitions": transitions, "terminal_states": results.iter().map(|r| r.1.terminal_states).sum::<u64>(),
        "most_threads_blocked_at_once": results.iter().map(|r| r.1.max_blocked).max().unwrap_or(0), "largest": largest,
        "deadlocks": deadlocks, "configurations_stopped_by_the_state_cap": capped, "state_cap": cap, "secs": t0.elapsed().as_secs_f64()}));
}
fn cfg_name(cfg: &Config) -> String { cfg.iter().map(|p| p.iter().map(|o| OPS[*o]).collect::<Vec<_>>().join(";")).collect::<Vec<_>>().join(" || ") }

/// child: one loom exploration. Prints `RESULT <json>` on success; a failure panics (loom aborts the model) after writing the failing trace.
fn child(cfg: Config, bound: Option<usize>, fail_file: String) {
    install();
    let nonjoint = std::sync::Arc::new(AtomicUsize::new(0));
    let nj = nonjoint.clone();
    ITERS.store(0, Ordering::SeqCst); EVENTS.store(0, Ordering::SeqCst);
    let outcomes = std::sync::Arc::new(std::sync::Mutex::new(BTreeMap::<Vec<Vec<String>>, usize>::new()));
    let oc = outcomes.clone();
    let cfgc = cfg.clone();
    let ff = fail_file.clone();
    let name = cfg_name(&cfg);
    let name2 = name.clone();
    // on any panic inside the model (deadlock, poisoned lock, non-linearizable outcome) dump the lock trace of the failing execution
    let prev = std::panic::take_hook();
    std::panic::set_hook(Box::new(move |info| {
        let msg = info.to_string();
        // the generator crate cancels coroutines with a silent panic during normal teardown: not a failure of the model
        if msg.contains("/generator-") && msg.contains("yield_.rs") { return }
        let kind = if msg.contains("deadlock") { "deadlock" } else if msg.contains("NON-LINEARIZABLE") { "non-linearizable" } else if msg.contains("CARRIED-STATE") { "carried-state" } else if msg.contains("PoisonError") || msg.contains("poison") { "poisoned-lock" } else { "panic" };
        if !std::path::Path::new(&ff).exists() {
            let t = TRACE.lock().map(|t| t.clone()).unwrap_or_default();
            let _ = std::fs::write(&ff, json!({"kind": kind, "config": name2, "iteration": ITERS.load(Ordering::SeqCst), "message": msg.lines().take(4).collect::<Vec<_>>().join(" | "), "lock_trace_of_failing_execution": t}).to_string());
        }
        prev(info);
    }));
    let refset = reference(&cfg);
    let ref_n = refset.joint.len();
    // part 5: every explored schedule is replayed as a run of the lock-protocol model extracted from single-thread runs (model16.rs)
    let progs = extract_programs().ok();
    let diverged = std::sync::Arc::new(std::sync::Mutex::new((0usize, 0usize, String::new())));
    let dv = diverged.clone();
    let thread_programs: Vec<Vec<model16::Ins>> = progs.as_ref().map(|p| { let mut v: Vec<Vec<model16::Ins>> = cfg.iter().map(|t| t.iter().flat_map(|o| p.ops[*o].clone()).collect()).collect(); v.push([BUILD, 1usize, 4, 7, 10].iter().flat_map(|o| p.ops[*o].clone()).collect()); v }).unwrap_or_default();
    let nthreads = cfg.len();
    let mut b = loom::model::Builder::new();
    b.preemption_bound = bound;
    b.max_branches = 200_000;
    let cap_secs: u64 = std::env::var("VC_MAX_SECS").ok().and_then(|s| s.parse().ok()).unwrap_or(120);
    b.max_duration = Some(std::time::Duration::from_secs(cap_secs));
    let t0 = std::time::Instant::now();
    b.check(move || {
        ITERS.fetch_add(1, Ordering::Relaxed);
        EPOCH.fetch_add(1, Ordering::SeqCst);
        TRACE.lock().unwrap().clear(); EVLOG.lock().unwrap().clear();
        let env = shared_envelope();
        let hs: Vec<_> = cfgc.iter().map(|p| { let (e, p) = (env.clone(), p.clone()); loom::thread::Builder::new().stack_size(1 << 22).spawn(move || run_program(&p, &e)).unwrap() }).collect();
        let outs: Vec<Vec<String>> = hs.into_iter().map(|h| h.join().unwrap()).collect();
        for (t, o) in outs.iter().enumerate() { for (i, txt) in o.iter().enumerate() {
            if !refset.allowed[t][i].contains(txt) { panic!("NON-LINEARIZABLE outcome: thread {} call {} ({}) returned a text it returns in no sequential order on freshly initialised registries: {:?}", t, i, OPS[cfgc[t][i]], txt.replace('\n', "/").chars().take(300).collect::<String>()) }
        } }
        let fin = final_probe(&env);
        if !refset.finals.contains(&fin) { panic!("NON-LINEARIZABLE outcome: the quiescent state after all threads finished differs from every sequential order (lost update?): {:?}", fin.iter().map(|s| s.replace('\n', "/").chars().take(120).collect::<String>()).collect::<Vec<_>>()) }
        if !refset.joint.contains(&outs) { nj.fetch_add(1, Ordering::Relaxed); }
        *oc.lock().unwrap().entry(outs).or_insert(0) += 1;
        if let Some(p) = &progs {
            let log = EVLOG.lock().unwrap().clone();
            let m = model16::Model { p, thread_programs: thread_programs.clone() };
            // loom thread ids: 0 = the main thread (which runs the quiescent probe), 1.. = the spawned threads in spawn order
            let r = m.replay(&log, &|tid| if tid == 0 { Some(nthreads as u16) } else if (tid as usize) <= nthreads { Some((tid - 1) as u16) } else { None });
            let mut d = dv.lock().unwrap(); d.0 += 1; if let Err(e) = r { d.1 += 1; if d.2.is_empty() { d.2 = e } }
        }
    });
    let (replayed, divergences, first_divergence) = diverged.lock().unwrap().clone();
    let o = outcomes.lock().unwrap();
    outln!("RESULT {}", json!({"config": name, "threads": cfg.len(), "bound": bound, "schedules": ITERS.load(Ordering::SeqCst), "sync_events": EVENTS.load(Ordering::SeqCst), "distinct_outcomes": o.len(), "sequential_reference_outcomes": ref_n, "schedules_with_an_intermediate_state_observed": nonjoint.load(Ordering::Relaxed), "secs": t0.elapsed().as_secs_f64(), "time_cap_hit": t0.elapsed().as_secs() >= cap_secs,
        "schedules_replayed_in_the_model": replayed, "model_divergences": divergences, "first_model_divergence": first_divergence}));
}

fn configs(tier: &str) -> Vec<(Config, Option<usize>)> {
    let mut v: Vec<(Config, Option<usize>)> = vec![];
    let n = OPS.len();
    let thorough = tier == "thorough";
    // every pair of single-operation threads (up to symmetry), iterated preemption bounds
    for a in 0..n { for b in a..n { { let writes = |o: usize| matches!(o, 6 | 12); let heavy = |o: usize| matches!(o, 13 | 14 | 15); v.push((vec![vec![a], vec![b]], Some(if thorough { if heavy(a) || heavy(b) { 3 } else { 5 } } else if (writes(a) || writes(b)) && !(heavy(a) || heavy(b)) { 3 } else { 2 }))) } } }
    // (2-op, 1-op) pairs: first-use race followed by a formatting call, against every single operation
    let two: Vec<Vec<usize>> = vec![vec![6, 1], vec![6, 0], vec![7, 0], vec![10, 2], vec![8, 4], vec![0, 6], vec![1, 1], vec![9, 1], vec![11, 0], vec![6, 4], vec![5, 6], vec![2, 3], vec![12, 1], vec![12, 6], vec![6, 12], vec![13, 6], vec![14, 0], vec![15, 0], vec![15, 6]];
    let partners: Vec<usize> = if thorough { (0..n).collect() } else { vec![0, 2, 6, 7, 10, 12, 13] };
    for p in two.iter().take(if thorough { 19 } else { 14 }) { for b in &partners { v.push((vec![p.clone(), vec![*b]], Some(if thorough { 3 } else { 2 }))) } }
    // three threads: operation triples that touch different registries
    let triples: Vec<[usize; 3]> = vec![[15, 0, 6], [15, 15, 1], [0, 6, 2], [1, 7, 10], [6, 8, 9], [0, 1, 6], [4, 6, 7], [2, 3, 6], [6, 6, 0], [7, 8, 1], [10, 6, 5], [11, 0, 6], [12, 6, 1], [12, 12, 6]];
    for t in triples.iter().rev().take(if thorough { 14 } else { 5 }) { v.push((t.iter().map(|o| vec![*o]).collect(), Some(if thorough && !t.contains(&15) { 3 } else { 2 }))) }
    if thorough {
        for q in [[0usize, 6, 2, 1], [6, 7, 8, 0], [0, 0, 6, 6], [1, 10, 6, 4], [6, 9, 2, 11], [3, 4, 5, 6]] { v.push((q.iter().map(|o| vec![*o]).collect(), Some(2))) }
        for t in [[vec![6usize, 0], vec![1], vec![2]], [vec![0, 6], vec![6, 1], vec![7]]] { v.push((t.to_vec(), Some(2))) }
    }
    v
}

fn main() {
    let args: Vec<String> = std::env::args().collect();
    if args.get(1).map(|s| s.as_str()) == Some("child") {
        let cfg: Config = serde_json::from_str(&args[2]).expect("config json");
        let bound: Option<usize> = args[3].parse().ok();
        child(cfg, bound, args[4].clone());
        return;
    }
    if args.get(1).map(|s| s.as_str()) == Some("model16") { model16_main(args.get(2).map(|s| s.as_str()).unwrap_or("quick")); return }
    if args.get(1).map(|s| s.as_str()) == Some("alone") { alone(args[2].parse().unwrap(), args[3].parse().unwrap()); return }
    let root = std::env::var("VERIF_ROOT").unwrap_or_else(|_| "/verif".into());
    let mut tier = std::env::var("VERIF_TIER").unwrap_or_else(|_| "quick".into());
    let mut replay: Option<String> = None;
    let mut i = 1; while i < args.len() { match args[i].as_str() { "quick" => tier = "quick".into(), "thorough" => tier = "thorough".into(), "--replay" => { i += 1; replay = args.get(i).cloned() } _ => {} } i += 1 }
    let seed: u64 = std::env::var("VERIF_SEED").ok().and_then(|s| s.parse().ok()).unwrap_or(0);
    let t0 = std::time::Instant::now();
    let mut cfgs = configs(&tier);
    if let Some(f) = &replay {
        let v: Value = serde_json::from_str(&std::fs::read_to_string(f).expect("replay file")).expect("replay json");
        let c: Config = serde_json::from_value(v["config_ops"].clone()).expect("config_ops");
        let b: Option<usize> = v["bound"].as_u64().map(|x| x as usize);
        cfgs = vec![(c.clone(), b), (c, b)]; // twice: identical verdicts required
    }
    let known: Vec<(String, String)> = std::fs::read_to_string(format!("{root}/known_findings.json")).ok().and_then(|s| serde_json::from_str::<Value>(&s).ok()).map(|v| v["findings"].as_array().cloned().unwrap_or_default().iter().filter(|f| f["property"] == "C20" && f["status"] == "known").map(|f| (f["key"].as_str().unwrap_or("").to_string(), f["what"].as_str().unwrap_or("").to_string())).collect()).unwrap_or_default();
    let exe = std::env::current_exe().unwrap();
    let dir = format!("{root}/replays/C20"); let _ = std::fs::create_dir_all(&dir);
    // run-alone table: one fresh process per (registry state, operation)
    let table_path = format!("{dir}/.alone-table-{}.json", std::process::id());
    {
        let n = OPS.len();
        let cells: Vec<(usize, usize)> = (0..STATES).flat_map(|f| (0..n).map(move |o| (f, o))).collect();
        let table = std::sync::Mutex::new(vec![vec![String::new(); n]; STATES]);
        let nx = AtomicUsize::new(0);
        std::thread::scope(|s| { for _ in 0..16 { s.spawn(|| loop {
            let k = nx.fetch_add(1, Ordering::SeqCst); if k >= cells.len() { break }
            let (f, o) = cells[k];
            let out = std::process::Command::new(&exe).arg("alone").arg(f.to_string()).arg(o.to_string()).output().expect("spawn alone");
            let so = String::from_utf8_lossy(&out.stdout).to_string();
            match so.lines().find(|l| l.starts_with("ALONE ")).and_then(|l| serde_json::from_str::<String>(&l[6..]).ok()) {
                Some(t) if out.status.success() => table.lock().unwrap()[f][o] = t,
                _ => { eprintln!("MACHINERY: run-alone process for state {f} op {} failed: {}", OPS[o], String::from_utf8_lossy(&out.stderr).lines().rev().take(4).collect::<Vec<_>>().join(" | ")); table.lock().unwrap()[f][o] = format!("<run-alone process failed: state {f} op {o}>") }
            }
        }); } });
        std::fs::write(&table_path, serde_json::to_string(&*table.lock().unwrap()).unwrap()).expect("write table");
    }
    let results = std::sync::Mutex::new(Vec::<Value>::new());
    let failures = std::sync::Mutex::new(Vec::<Value>::new());
    let next = AtomicUsize::new(0);
    // part 5 (model16.rs): the lock-protocol model for 2..16 threads, in its own process, alongside the loom children
    let model16_child = if replay.is_none() { std::process::Command::new(&exe).arg("model16").arg(&tier).stdout(std::process::Stdio::piped()).stderr(std::process::Stdio::piped()).spawn().ok() } else { None };
    let workers = std::thread::available_parallelism().map(|n| n.get()).unwrap_or(8).min(16);
    std::thread::scope(|s| {
        for _ in 0..workers {
            s.spawn(|| loop {
                let k = next.fetch_add(1, Ordering::SeqCst);
                if k >= cfgs.len() { break }
                let (cfg, bound) = &cfgs[k];
                let fail_file = format!("{dir}/.fail-{}-{k}.json", std::process::id());
                let _ = std::fs::remove_file(&fail_file);
                let out = std::process::Command::new(&exe).arg("child").arg(serde_json::to_string(cfg).unwrap()).arg(bound.map(|b| b.to_string()).unwrap_or_else(|| "none".into())).arg(&fail_file)
                    .env("VC_MAX_SECS", if tier == "thorough" { "300" } else { "120" }).env("VC_ALONE_TABLE", &table_path).output().expect("spawn child");
                let stdout = String::from_utf8_lossy(&out.stdout).to_string();
                if out.status.success() {
                    if let Some(l) = stdout.lines().find(|l| l.starts_with("RESULT ")) { results.lock().unwrap().push(serde_json::from_str(&l[7..]).unwrap()) }
                } else {
                    let fail: Value = std::fs::read_to_string(&fail_file).ok().and_then(|s| serde_json::from_str(&s).ok()).unwrap_or(json!({"kind": "abort", "message": String::from_utf8_lossy(&out.stderr).lines().rev().take(6).collect::<Vec<_>>().join(" | ")}));
                    let _ = std::fs::remove_file(&fail_file);
                    failures.lock().unwrap().push(json!({"config": cfg_name(cfg), "config_ops": cfg, "bound": bound, "failure": fail}));
                }
            });
        }
    });
    let _ = std::fs::remove_file(&table_path);
    let results = results.into_inner().unwrap(); let mut failures = failures.into_inner().unwrap();
    let model16: Value = match model16_child.map(|c| c.wait_with_output()) {
        Some(Ok(o)) => String::from_utf8_lossy(&o.stdout).lines().find(|l| l.starts_with("MODEL16 ")).and_then(|l| serde_json::from_str(&l[8..]).ok()).unwrap_or_else(|| json!({"validated": false, "why": format!("the model process gave no result: {}", String::from_utf8_lossy(&o.stderr).lines().rev().take(3).collect::<Vec<_>>().join(" | "))})),
        _ => json!({"validated": false, "why": "not run"}),
    };
    let replayed: u64 = results.iter().map(|r| r["schedules_replayed_in_the_model"].as_u64().unwrap_or(0)).sum();
    let divergences: u64 = results.iter().map(|r| r["model_divergences"].as_u64().unwrap_or(0)).sum();
    let first_div: String = results.iter().filter_map(|r| r["first_model_divergence"].as_str()).find(|s| !s.is_empty()).unwrap_or("").to_string();
    // the model speaks only if the implementation's traces confirm it: exact single-thread predictions and every loom schedule a run of the model
    let model_ok = model16["validated"].as_bool().unwrap_or(false) && divergences == 0 && replayed > 0;
    if model_ok { for d in model16["deadlocks"].as_array().cloned().unwrap_or_default() {
        failures.push(json!({"config": format!("lock-protocol model, {}", d["configuration"].as_str().unwrap_or("?")), "config_ops": [], "bound": Value::Null, "failure": {"kind": "model-deadlock", "message": d["what"]}}));
    } }
    if replay.is_some() {
        let kinds: Vec<String> = failures.iter().map(|f| f["failure"]["kind"].as_str().unwrap_or("").to_string()).collect();
        outln!("REPLAY property=C20 reproduced={} runs={} kinds={:?}", !failures.is_empty(), cfgs.len(), kinds);
        if failures.len() == 1 { eprintln!("MACHINERY: replay verdict not reproducible"); std::process::exit(2) }
        std::process::exit(if failures.is_empty() { 0 } else { 1 });
    }
    let mut unlisted = 0; let mut known_met = vec![]; let mut viols = vec![];
    let mut by_sig: BTreeMap<String, (usize, Value)> = BTreeMap::new();
    for f in &failures { let sig = format!("C20|{}|{}", f["failure"]["kind"].as_str().unwrap_or("?"), f["config"].as_str().unwrap_or("?")); let e = by_sig.entry(sig).or_insert((0, f.clone())); e.0 += 1; }
    for (sig, (n, f)) in &by_sig {
        let path = format!("{dir}/{}.json", sig.chars().map(|c| if c.is_ascii_alphanumeric() { c } else { '_' }).collect::<String>().chars().take(120).collect::<String>());
        let mut rec = f.clone(); rec["property"] = json!("C20"); rec["signature"] = json!(sig); rec["replay_cmd"] = json!(format!("./check C20 --replay {path}"));
        let _ = std::fs::write(&path, serde_json::to_string_pretty(&rec).unwrap());
        if let Some((_, what)) = known.iter().find(|(k, _)| k == sig) { outln!("KNOWN-FINDING: property=C20 key={sig} {what}"); known_met.push(json!({"key": sig})) }
        else { outln!("VIOLATION property=C20 replay={path}"); outln!("  signature: {sig}\n  what: {}\n  occurrences: {n}", f["failure"]["message"].as_str().unwrap_or("").chars().take(300).collect::<String>()); unlisted += 1; viols.push(json!({"signature": sig, "replay": path})) }
    }
    let schedules: u64 = results.iter().map(|r| r["schedules"].as_u64().unwrap_or(0)).sum();
    let events: u64 = results.iter().map(|r| r["sync_events"].as_u64().unwrap_or(0)).sum();
    let outcomes: u64 = results.iter().map(|r| r["distinct_outcomes"].as_u64().unwrap_or(0)).sum();
    let slowest: Vec<Value> = { let mut r: Vec<&Value> = results.iter().collect(); r.sort_by(|a, b| b["secs"].as_f64().partial_cmp(&a["secs"].as_f64()).unwrap()); r.into_iter().take(8).map(|x| json!({"config": x["config"], "bound": x["bound"], "schedules": x["schedules"], "secs": x["secs"]})).collect() };
    let capped: Vec<&Value> = results.iter().filter(|r| r["time_cap_hit"].as_bool().unwrap_or(false)).collect();
    let capped_names: Vec<String> = capped.iter().map(|r| r["config"].as_str().unwrap_or("").to_string()).collect();
    let multi: usize = results.iter().filter(|r| r["distinct_outcomes"].as_u64().unwrap_or(0) >= 2).count();
    let by_shape = { let mut m: BTreeMap<String, (u64, u64)> = BTreeMap::new(); for r in &results { let k = format!("{} threads, preemption bound {}", r["threads"], r["bound"]); let e = m.entry(k).or_insert((0, 0)); e.0 += 1; e.1 += r["schedules"].as_u64().unwrap_or(0) } m.into_iter().map(|(k, (c, s))| json!({"shape": k, "configurations": c, "schedules": s})).collect::<Vec<_>>() };
    let mut samples: Vec<Value> = results.iter().filter(|r| r["distinct_outcomes"].as_u64().unwrap_or(0) >= 2).take(3).cloned().collect();
    if samples.is_empty() { samples = results.iter().take(2).cloned().collect() }
    let _ = seed;
    let ev = json!({"property_id": "C20", "tier": tier, "seed": seed, "level": "model_checking", "violations": unlisted, "wall_s": t0.elapsed().as_secs_f64(),
        "coverage": {"states": schedules.max(1), "transitions": events.max(1), "traces_validated_against_impl": schedules, "samples": samples,
            "evaluations": schedules.max(1), "distinct_nontrivial": (outcomes as usize).max(2),
            "rule": "a case = one complete thread schedule of a configuration (2..4 loom threads, 1..2 operations each, on one shared envelope) run on the REAL lazy registries and formatter through the synchronisation seam, registries reset to never-initialised at the start of every execution; oracle: terminates (no deadlock / panic / poisoned lock) and the per-thread outputs equal those of SOME sequential order on freshly initialised registries; distinct_nontrivial = sum over configurations of distinct outcome vectors observed",
            "exhaustive": capped_names.is_empty(), "configurations_stopped_by_the_time_cap": capped_names, "configurations": results.len(), "configurations_with_at_least_two_outcomes": multi, "by_shape": by_shape, "slowest_configurations": slowest,
            "bounds": {"threads_max": if tier == "thorough" { 4 } else { 3 }, "preemption_bounds": if tier == "thorough" { "2 threads bound 5 (single ops) / 3 (two-op programs), 3 threads bound 3, 4 threads bound 2" } else { "2 threads: all 136 pairs of single operations, bound 3 when a writer (register_tags, custom tag) meets a light operation, bound 2 otherwise; 14 two-op programs x 7 partners bound 2; 3 threads (5 triples) bound 2" }, "loom_branch_cap": 200000},
            "lock_protocol_model_2_to_16_threads": {"used_for_a_verdict": model_ok, "loom_schedules_replayed_as_runs_of_the_model": replayed, "divergences": divergences, "first_divergence": first_div, "result": model16},
            "operations": OPS, "failed_configurations": failures.len(), "known_findings_met": known_met, "unlisted_violations": viols},
        "assumptions": ["the real code is explored with at most 4 threads (loom's limit); for 2..16 threads the termination clause (no deadlock, nothing left locked) is decided on a lock-protocol model that is extracted from the implementation's own lock traces, must predict every single-thread trace exactly and must admit every schedule loom explored as one of its runs (coverage.lock_protocol_model_2_to_16_threads); the texts returned are compared on the real code only, i.e. with at most 4 threads",
            "dcbor's registry is explored through a vendored copy of dcbor 0.17.1 that differs in three lines (sync import routed through the same seam)",
            "bc-rand's process-wide generator mutex is not routed through the seam; no operation in the alphabet draws randomness",
            "loom explores sequentially consistent interleavings at the seam's lock/once operations; the crate has no unsafe code, atomics or other interior mutability"]});
    let _ = std::fs::create_dir_all(format!("{root}/evidence"));
    std::fs::write(format!("{root}/evidence/C20.json"), serde_json::to_string_pretty(&ev).unwrap()).expect("write evidence");
    outln!("C20 {tier} level=model_checking configurations={} schedules={schedules} sync_events={events} distinct_outcomes={outcomes} failed_configurations={} unlisted_violations={unlisted} wall={:.1}s", results.len(), failures.len(), t0.elapsed().as_secs_f64());
    outln!("C20 lock-protocol model for 2..16 threads: used_for_a_verdict={model_ok} validated={} loom_schedules_replayed={replayed} divergences={divergences} configurations={} states={} transitions={} deadlocks={}", model16["validated"], model16["configurations"], model16["states"], model16["transitions"], model16["deadlocks"].as_array().map(|a| a.len()).unwrap_or(0));
    if !model_ok { outln!("  note: the model part gives no verdict on this tree ({}{})", model16["why"].as_str().unwrap_or(""), first_div); }
    if results.is_empty() && failures.is_empty() { eprintln!("MACHINERY: nothing explored"); std::process::exit(2) }
    std::process::exit(if unlisted > 0 { 1 } else { 0 });
}
