//! C20, part 5: a lock-protocol model for up to 16 threads, generated from the implementation's own lock traces.
//!
//! loom explores the real code with at most 4 threads. The statement says 2..16. This module closes the gap with a MODEL that is
//! (1) extracted from the real code - every operation is run alone on never-initialised registries through the seam and its
//!     sequence of lock / once events becomes its program; the body of each `Once` is whatever ran between its enter and exit;
//! (2) validated against the real code - (a) for every registry state and operation the model must predict the recorded
//!     single-thread event sequence exactly, (b) EVERY multi-thread schedule loom explores is replayed, event by event, as a run
//!     of the model (each event must be the next instruction of its thread and enabled in the model state);
//! (3) explored exhaustively (explicit-state, threads of equal local state merged into counters - an exact symmetry reduction)
//!     for every thread count 2..16: no reachable state may be a deadlock, and every terminal state has all locks free and no
//!     `Once` left running.
use std::collections::{BTreeMap, HashMap, HashSet, VecDeque};

/// (thread, kind, object id); kinds: 0 acquire? 1 acquired 2 released 3 once-enter 4 once-exit 5 once-done
pub type Ev = (u32, u8, usize);

#[derive(Clone, Copy, PartialEq, Eq, Hash, Debug, PartialOrd, Ord)]
pub enum Ins { Acq(u8), Rel(u8), Once(u8) }

#[derive(Clone, Default)]
pub struct Programs {
    pub objs: Vec<usize>,                  // object index -> seam id
    pub names: Vec<String>,                // object index -> readable name
    pub ops: Vec<Vec<Ins>>,                // operation -> program
    pub bodies: BTreeMap<u8, Vec<Ins>>,    // once object -> body
}

impl Programs {
    fn obj(&mut self, id: usize, name: &str) -> u8 {
        if let Some(i) = self.objs.iter().position(|x| *x == id) { return i as u8 }
        self.objs.push(id); self.names.push(format!("{}#{}", name, self.objs.len() - 1)); (self.objs.len() - 1) as u8
    }
    /// Parses the single-thread event log of one operation (run on never-initialised registries) into its program; bodies of the
    /// `Once` cells met are recorded (and must agree with what an earlier operation recorded for the same cell).
    pub fn add_op(&mut self, log: &[Ev], name_of: &dyn Fn(usize) -> String) -> Result<(), String> {
        let mut pos = 0;
        let p = self.parse(log, &mut pos, None, name_of)?;
        if pos != log.len() { return Err(format!("unbalanced once events at {pos}")) }
        self.ops.push(p); Ok(())
    }
    fn parse(&mut self, log: &[Ev], pos: &mut usize, until: Option<usize>, name_of: &dyn Fn(usize) -> String) -> Result<Vec<Ins>, String> {
        let mut out = vec![];
        while *pos < log.len() {
            let (_, k, id) = log[*pos]; *pos += 1;
            match k {
                0 => {}
                1 => { let o = self.obj(id, &name_of(id)); out.push(Ins::Acq(o)) }
                2 => { let o = self.obj(id, &name_of(id)); out.push(Ins::Rel(o)) }
                3 => {
                    let o = self.obj(id, "once");
                    let body = self.parse(log, pos, Some(id), name_of)?;
                    if let Some(b) = self.bodies.get(&o) { if *b != body { return Err(format!("the body of {} differs between two recordings: {:?} vs {:?}", self.names[o as usize], b, body)) } }
                    self.bodies.insert(o, body); out.push(Ins::Once(o))
                }
                4 => { if until == Some(id) { return Ok(out) } return Err(format!("once-exit of another cell at {}", *pos - 1)) }
                5 => { let o = self.obj(id, "once"); out.push(Ins::Once(o)) }
                _ => return Err(format!("unknown event kind {k}")),
            }
        }
        if until.is_some() { return Err("once-enter without once-exit".into()) }
        Ok(out)
    }
    pub fn show(&self, p: &[Ins]) -> String { p.iter().map(|i| match i { Ins::Acq(o) => format!("acq {}", self.names[*o as usize]), Ins::Rel(o) => format!("rel {}", self.names[*o as usize]), Ins::Once(o) => format!("once {}", self.names[*o as usize]) }).collect::<Vec<_>>().join("; ") }
    pub fn describe(&self) -> serde_json::Value {
        serde_json::json!({"objects": self.names, "once_bodies": self.bodies.iter().map(|(o, b)| (self.names[*o as usize].clone(), self.show(b))).collect::<BTreeMap<_, _>>()})
    }
}

/// thread-local control state: a stack of (list, index) frames; list < ops.len() is an operation program given by the thread's
/// own program table, list >= 1000 is the body of once object (list - 1000)
#[derive(Clone, PartialEq, Eq, Hash, Debug, PartialOrd, Ord)]
pub struct Th { pub prog: u16, pub frames: Vec<(u16, u16)> }

#[derive(Clone, PartialEq, Eq, Hash, Debug)]
pub struct Global { pub held: u64, pub running: u64, pub done: u64 }

pub struct Model<'a> { pub p: &'a Programs, pub thread_programs: Vec<Vec<Ins>> }

pub enum Step { Finished, Blocked(String), Go(Th, Global, (u8, u8)) }

impl<'a> Model<'a> {
    fn list(&self, th: &Th, l: u16) -> &[Ins] { if l >= 1000 { &self.p.bodies[&((l - 1000) as u8)] } else { &self.thread_programs[th.prog as usize] } }
    pub fn start(&self, prog: u16) -> Th { Th { prog, frames: vec![(0, 0)] } }
    /// pops completed frames; completing a once body marks the cell done (returned as an event)
    pub fn step(&self, th: &Th, g: &Global) -> Step {
        let mut th = th.clone(); let mut g = g.clone();
        loop {
            let Some(&(l, i)) = th.frames.last() else { return Step::Finished };
            let list = self.list(&th, l);
            if (i as usize) < list.len() {
                let ins = list[i as usize];
                let n = th.frames.len() - 1;
                return match ins {
                    Ins::Acq(o) => { if g.held >> o & 1 == 1 { Step::Blocked(format!("waits for lock {}", self.p.names[o as usize])) } else { g.held |= 1 << o; th.frames[n].1 += 1; Step::Go(th, g, (1, o)) } }
                    Ins::Rel(o) => { g.held &= !(1 << o); th.frames[n].1 += 1; Step::Go(th, g, (2, o)) }
                    Ins::Once(o) => {
                        if g.done >> o & 1 == 1 { th.frames[n].1 += 1; Step::Go(th, g, (5, o)) }
                        else if g.running >> o & 1 == 1 { Step::Blocked(format!("waits for {} to finish", self.p.names[o as usize])) }
                        else { g.running |= 1 << o; th.frames[n].1 += 1; th.frames.push((1000 + o as u16, 0)); Step::Go(th, g, (3, o)) }
                    }
                };
            }
            // end of a list
            th.frames.pop();
            if l >= 1000 { let o = (l - 1000) as u8; g.running &= !(1 << o); g.done |= 1 << o; return Step::Go(th, g, (4, o)) }
        }
    }
    pub fn finished(&self, th: &Th) -> bool { let mut t = th.clone(); loop { match t.frames.last() { None => return true, Some(&(l, i)) => { if (i as usize) < self.list(&t, l).len() || l >= 1000 { return false } t.frames.pop(); } } } }

    /// Replays a recorded multi-thread event log as a run of the model. `tid_to_prog` maps loom thread ids to thread programs.
    pub fn replay(&self, log: &[Ev], tid_to_prog: &dyn Fn(u32) -> Option<u16>) -> Result<(), String> {
        let mut g = Global { held: 0, running: 0, done: 0 };
        let mut ths: HashMap<u32, Th> = HashMap::new();
        for (n, (tid, k, id)) in log.iter().enumerate() {
            if *k == 0 { continue }
            let Some(prog) = tid_to_prog(*tid) else { return Err(format!("event {n} by an unknown thread {tid}")) };
            let th = ths.entry(*tid).or_insert_with(|| self.start(prog)).clone();
            match self.step(&th, &g) {
                Step::Go(t2, g2, (mk, mo)) => {
                    if mk != *k || self.p.objs.get(mo as usize) != Some(id) { return Err(format!("event {n}: thread {tid} did (kind {k}, object {:x}) where the model expects (kind {mk}, {})", id & 0xffff, self.p.names[mo as usize])) }
                    ths.insert(*tid, t2); g = g2;
                }
                Step::Blocked(w) => return Err(format!("event {n}: thread {tid} did (kind {k}, object {:x}) while the model says it {w}", id & 0xffff)),
                Step::Finished => return Err(format!("event {n}: thread {tid} did (kind {k}, object {:x}) after the end of its program", id & 0xffff)),
            }
        }
        for (tid, th) in &ths { if !self.finished(th) { return Err(format!("thread {tid} stopped before the end of its program: {:?}", th.frames)) } }
        if g.held != 0 || g.running != 0 { return Err("locks held or once running at the end".into()) }
        Ok(())
    }
    /// single-thread prediction: the (kind, object id) sequence of running the thread programs one after the other
    pub fn predict(&self, order: &[u16], g0: Global) -> Result<(Vec<(u8, usize)>, Global), String> {
        let mut g = g0; let mut out = vec![];
        for p in order {
            let mut th = self.start(*p);
            loop { match self.step(&th, &g) { Step::Finished => break, Step::Blocked(w) => return Err(format!("a single thread {w}")), Step::Go(t, g2, (k, o)) => { out.push((k, self.p.objs[o as usize])); th = t; g = g2 } } }
        }
        Ok((out, g))
    }
}

/// Reduction of a program for the exploration (the replay and the single-thread predictions use the unreduced programs):
/// * a `Once` call that follows an earlier call of the same cell in the same list is dropped - the cell is done by then, reading
///   it changes nothing and commutes with every step of every thread;
/// * of directly consecutive empty critical sections on the same lock (`acq X; rel X; acq X; rel X`) only one is kept - such a
///   section changes nothing, a thread holds the same locks before each of them, so a deadlock with the thread waiting at the j-th
///   exists iff one exists with it waiting at the first.
pub fn reduce_list(l: &[Ins]) -> Vec<Ins> {
    let mut out: Vec<Ins> = vec![]; let mut seen: Vec<u8> = vec![];
    let mut i = 0;
    while i < l.len() {
        match l[i] {
            Ins::Once(o) => { if !seen.contains(&o) { seen.push(o); out.push(l[i]) } i += 1 }
            Ins::Acq(x) if i + 1 < l.len() && l[i + 1] == Ins::Rel(x) => {
                let n = out.len();
                if !(n >= 2 && out[n - 2] == Ins::Acq(x) && out[n - 1] == Ins::Rel(x)) { out.push(l[i]); out.push(l[i + 1]); }
                i += 2
            }
            other => { out.push(other); i += 1 }
        }
    }
    out
}
impl Programs {
    pub fn reduced(&self) -> Programs { let mut p = self.clone(); p.ops = self.ops.iter().map(|l| reduce_list(l)).collect(); p.bodies = self.bodies.iter().map(|(k, l)| (*k, reduce_list(l))).collect(); p }
}
impl<'a> Model<'a> {
    /// One visible step (acquire, or entering a once body) followed by every step of the same thread that is always enabled and
    /// only enables others (release, leaving a once body, passing a cell that is done): those are left movers, so every execution
    /// is equivalent to one in which they directly follow the preceding step of their thread, and no deadlock state is lost
    /// (in a deadlock no thread stands before such a step).
    pub fn macro_step(&self, th: &Th, g: &Global) -> Step {
        match self.step(th, g) {
            Step::Go(mut t, mut g2, ev) => {
                loop {
                    let Some(&(l, i)) = t.frames.last() else { break };
                    let list = self.list(&t, l);
                    let eager = if (i as usize) < list.len() { match list[i as usize] { Ins::Rel(_) => true, Ins::Once(o) => g2.done >> o & 1 == 1, Ins::Acq(_) => false } } else { true };
                    if !eager { break }
                    match self.step(&t, &g2) { Step::Go(t3, g3, _) => { t = t3; g2 = g3 } _ => break }
                }
                Step::Go(t, g2, ev)
            }
            other => other,
        }
    }
}

pub struct Explored { pub states: u64, pub transitions: u64, pub terminal_states: u64, pub max_blocked: usize, pub deadlock: Option<String>, pub capped: bool }

/// Exhaustive exploration of `counts[i]` threads running thread program i. Threads in the same local state are interchangeable, so a
/// state is (global, multiset of local states); this is an exact quotient, not an approximation.
pub fn explore(m: &Model, counts: &[usize], cap: u64, g0: &Global) -> Explored {
    type S = (Global, Vec<(Th, u8)>);
    let mut init: Vec<(Th, u8)> = counts.iter().enumerate().filter(|(_, c)| **c > 0).map(|(i, c)| (m.start(i as u16), *c as u8)).collect();
    init.sort();
    let s0: S = (g0.clone(), init);
    let mut seen: HashSet<S> = HashSet::new(); seen.insert(s0.clone());
    let mut parent: HashMap<S, (S, String)> = HashMap::new();
    let mut q: VecDeque<S> = VecDeque::new(); q.push_back(s0);
    let mut r = Explored { states: 1, transitions: 0, terminal_states: 0, max_blocked: 0, deadlock: None, capped: false };
    while let Some(s) = q.pop_front() {
        let (g, ths) = &s;
        if ths.is_empty() {
            r.terminal_states += 1;
            if g.held != 0 || g.running != 0 { r.deadlock = Some(format!("terminal state with locks held / once running: {:?}", g)); return r }
            continue;
        }
        let mut enabled = 0; let mut blocked = 0usize; let mut why = vec![];
        for (k, (th, c)) in ths.iter().enumerate() {
            match m.macro_step(th, g) {
                Step::Blocked(w) => { blocked += *c as usize; why.push(format!("{} thread(s) of program {} {}", c, th.prog, w)) }
                Step::Finished => { // drop finished threads
                    enabled += 1; r.transitions += 1;
                    let mut t2 = ths.clone(); t2.remove(k);
                    let n: S = (g.clone(), t2);
                    if seen.insert(n.clone()) { r.states += 1; parent.insert(n.clone(), (s.clone(), format!("program {} finishes", th.prog))); q.push_back(n) }
                }
                Step::Go(nt, ng, ev) => {
                    enabled += 1; r.transitions += 1;
                    let mut t2 = ths.clone();
                    if t2[k].1 == 1 { t2.remove(k); } else { t2[k].1 -= 1 }
                    if !m.finished(&nt) { if let Some(e) = t2.iter_mut().find(|(t, _)| *t == nt) { e.1 += 1 } else { t2.push((nt, 1)); t2.sort() } }
                    let n: S = (ng, t2);
                    if seen.insert(n.clone()) { r.states += 1; parent.insert(n.clone(), (s.clone(), format!("program {}: event kind {} on {}", th.prog, ev.0, m.p.names[ev.1 as usize]))); q.push_back(n) }
                }
            }
        }
        r.max_blocked = r.max_blocked.max(blocked);
        if enabled == 0 {
            let mut path = vec![]; let mut cur = s.clone();
            while let Some((p, how)) = parent.get(&cur) { path.push(how.clone()); cur = p.clone() }
            path.reverse();
            r.deadlock = Some(format!("deadlock: {} | reached by: {}", why.join("; "), path.join(" -> ")));
            return r;
        }
        if r.states > cap { r.capped = true; return r }
    }
    r
}
