//! C18 - expression / request / response / event round-trip (DESIGN section 4, C18).
use crate::bind;
use crate::refmodel::tree::M;
use crate::report::{Acc, Ctx, catch, finish};
use bc_envelope::prelude::*;
use bc_components::{tags, ARID};
use dcbor::Date;
use rayon::prelude::*;
use serde_json::json;

/// the envelope carried as the subject of another one: compressed as a whole, annotated, serialised, decoded, subject uncompressed - the
/// receiver takes `subject()` (a node that is the subject of a node) and parses that
fn carried(e: &Envelope) -> Option<Envelope> {
    let c = e.compress().ok()?.add_assertion("carrier-note", "in transit");
    let d = Envelope::try_from_cbor_data(c.to_cbor_data()).ok()?;
    Some(d.uncompress_subject().ok()?.subject())
}
fn via(e: &Envelope) -> Option<Envelope> { Envelope::try_from_cbor_data(e.to_cbor_data()).ok() }
fn count(e: &Envelope, kv: KnownValue) -> usize { let d = M::Known(kv.value()).digest(); e.assertions().iter().filter(|a| a.subject().as_predicate().map(|p| bind::dg(&p)) == Some(d)).count() }

/// malformed-variant mutations of a response / request / event envelope
fn mutators(id: ARID) -> Vec<(&'static str, Box<dyn Fn(&Envelope) -> Envelope + Send + Sync>)> {
    let rm = |kv: KnownValue| move |e: &Envelope| { let d = M::Known(kv.value()).digest(); let mut r = e.clone(); for a in e.assertions() { if a.subject().as_predicate().map(|p| bind::dg(&p)) == Some(d) { r = r.remove_assertion(a) } } r };
    vec![
        ("add-error", Box::new(|e: &Envelope| e.add_assertion(known_values::ERROR, "E"))),
        ("add-second-error", Box::new(|e: &Envelope| e.add_assertion(known_values::ERROR, "E2"))),
        ("add-result", Box::new(|e: &Envelope| e.add_assertion(known_values::RESULT, "R"))),
        ("add-second-result", Box::new(|e: &Envelope| e.add_assertion(known_values::RESULT, "R2"))),
        // the added part carries an assertion of its own (what add_assertion_salted or an annotation produces): still a result / error / body
        ("add-error-decorated", Box::new(|e: &Envelope| e.add_assertion_envelope(Envelope::new_assertion(known_values::ERROR, "E").add_assertion("why", "w")).unwrap())),
        ("add-result-decorated", Box::new(|e: &Envelope| e.add_assertion_envelope(Envelope::new_assertion(known_values::RESULT, "R").add_assertion("why", "w")).unwrap())),
        ("add-second-body-decorated", Box::new(|e: &Envelope| e.add_assertion_envelope(Envelope::new_assertion(known_values::BODY, Envelope::from(Expression::new("other"))).add_assertion("why", "w")).unwrap())),
        ("add-second-content-decorated", Box::new(|e: &Envelope| e.add_assertion_envelope(Envelope::new_assertion(known_values::CONTENT, "other-content").add_assertion("why", "w")).unwrap())),
        ("remove-result", Box::new(rm(known_values::RESULT))),
        ("remove-error", Box::new(rm(known_values::ERROR))),
        ("remove-body", Box::new(rm(known_values::BODY))),
        ("remove-content", Box::new(rm(known_values::CONTENT))),
        ("add-second-body", Box::new(|e: &Envelope| e.add_assertion(known_values::BODY, Envelope::from(Expression::new("other"))))),
        ("add-second-content", Box::new(|e: &Envelope| e.add_assertion(known_values::CONTENT, "other-content"))),
        ("retag-request", Box::new(move |e: &Envelope| e.replace_subject(Envelope::new(CBOR::to_tagged_value(tags::TAG_REQUEST, id))))),
        ("retag-response", Box::new(move |e: &Envelope| e.replace_subject(Envelope::new(CBOR::to_tagged_value(tags::TAG_RESPONSE, id))))),
        ("retag-event", Box::new(move |e: &Envelope| e.replace_subject(Envelope::new(CBOR::to_tagged_value(tags::TAG_EVENT, id))))),
        ("untagged-subject", Box::new(move |e: &Envelope| e.replace_subject(Envelope::new(id)))),
        ("text-subject", Box::new(|e: &Envelope| e.replace_subject(Envelope::new("x")))),
        ("known-value-subject-other", Box::new(|e: &Envelope| e.replace_subject(Envelope::new(CBOR::to_tagged_value(tags::TAG_RESPONSE, known_values::NOTE))))),
    ]
}

pub fn run(ctx: &Ctx) -> i32 {
    let th = ctx.tier.thorough();
    let id = ARID::from_data([7u8; 32]);
    let functions: Vec<Function> = vec![Function::from(1u64), Function::from(15u64), Function::from(100u64), Function::from(u64::MAX), Function::from("add"), Function::from("foo"), Function::from(""), Function::new_static_named("verifySignature"), Function::new_known(7, Some("seven".to_string())), Function::new_named("verifySignature")];
    let params: Vec<Parameter> = vec![Parameter::from(1u64), Parameter::from(2u64), Parameter::from("lhs"), Parameter::from("x"), Parameter::new_static_named("blob"), Parameter::new_known(3, Some("three".to_string()))];
    let values: Vec<Envelope> = vec![Envelope::new(1), Envelope::new("t"), Envelope::new(-5), Envelope::new(1.5), Envelope::new(true), Envelope::new(known_values::NOTE), Envelope::new("w").wrap_envelope(), Envelope::new("n").add_assertion("a", "b"), Envelope::new_assertion("p", "o"), Envelope::new("e").elide(), Envelope::new("c").compress().unwrap(), Envelope::new(CBOR::to_byte_string([1u8, 2])), Envelope::null()];
    let notes = ["", "n", " ", "\t\n", " padded "];
    let dates: Vec<Option<Date>> = vec![None, Some(Date::from_timestamp(0.0)), Some(Date::from_timestamp(1.5)), Some(Date::from_timestamp(-1.5)), Some(Date::from_timestamp(1720091471.0)), Some(Date::from_timestamp(1720091471.123)), Some(Date::from_timestamp(253402300799.0))];
    // parameter lists of length 0..maxp with repetition
    let maxp = 3;
    let mut plists: Vec<Vec<(usize, usize)>> = vec![vec![]];
    for p in 0..params.len() { for v in 0..values.len() { plists.push(vec![(p, v)]) } }
    for p in 0..params.len() { for v in [0usize, 7, 9] { for p2 in 0..params.len() { for v2 in [1usize, 8, 0] { plists.push(vec![(p, v), (p2, v2)]) } } } }
    if maxp >= 3 { for p in 0..params.len() { for p2 in 0..params.len() { for p3 in 0..params.len() { plists.push(vec![(p, 0), (p2, 1), (p3, 7)]); plists.push(vec![(p, 0), (p2, 0), (p3, 0)]) } } } }
    let acc = functions.par_iter().enumerate().with_max_len(1).map(|(fi, f)| {
        let mut acc = Acc::new();
        for (pi, pl) in plists.iter().enumerate() {
            let cid = |s: &str| format!("fn{fi}/plist{pi}/{s}");
            let built = catch(|| { let mut ex = Expression::new(f.clone()); for (p, v) in pl { ex = ex.with_parameter(params[*p].clone(), values[*v].clone()) } let env: Envelope = ex.clone().into(); (ex, env) });
            let Ok((ex, env)) = built else { acc.viol("C18|expression|build-panic", "panic building an expression", cid("build"), json!({})); continue };
            acc.inc("expressions");
            acc.nontrivial(&("x", fi, pi));
            // documented shape: subject = function leaf (tag 40006), one assertion per distinct (parameter, value)
            if !matches!(bind::observe(&env.subject()), bind::O::Leaf(_, ref b) if b.starts_with(&[0xd9, 0x9c, 0x46])) { acc.viol("C18|expression|shape|subject-not-a-function", "expression subject is not a tagged function", cid("shape"), json!({"got": crate::report::ff(&env)})) }
            for (lbl, e2) in [("direct", Some(env.clone())), ("serialized", via(&env))] {
                acc.inc("roundtrips");
                match catch(|| e2.clone().map(Expression::try_from)) {
                    Ok(Some(Ok(b))) => if b != ex { acc.viol("C18|expression|roundtrip|not-equal", "parsed expression differs from the original", cid(lbl), json!({"envelope": crate::report::ff(&env)})) },
                    Ok(Some(Err(er))) => acc.viol("C18|expression|roundtrip|rejected", format!("{er}"), cid(lbl), json!({"envelope": crate::report::ff(&env)})),
                    Ok(None) => acc.viol("C18|expression|roundtrip|not-decodable", "serialisation does not decode", cid(lbl), json!({})),
                    Err(p) => if p.loc.contains("queries.rs") { acc.inc("panics_counted_under_C16") } else { acc.viol(format!("C18|expression|panic|{}", p.loc), p.msg.clone(), cid(lbl), json!({})) },
                }
            }
            // accessors of the parsed value agree with what was put in
            if let Ok(Ok(parsed)) = catch(|| Expression::try_from(env.clone())) {
                acc.inc("accessor_checks");
                let okf = catch(|| {
                    let mut bad: Vec<&'static str> = vec![];
                    if parsed.function() != f { bad.push("function()") }
                    for (pi2, _) in pl.iter() {
                        let want: Vec<[u8; 32]> = { let mut w: Vec<[u8; 32]> = pl.iter().filter(|(q, _)| params[*q] == params[*pi2]).map(|(_, v)| bind::dg(&values[*v])).collect(); w.sort(); w.dedup(); w };
                        let mut got: Vec<[u8; 32]> = parsed.objects_for_parameter(params[*pi2].clone()).iter().map(bind::dg).collect(); got.sort();
                        if got != want { bad.push("objects_for_parameter") }
                        match parsed.object_for_parameter(params[*pi2].clone()) { Ok(o) => if want.len() != 1 || bind::dg(&o) != want[0] { bad.push("object_for_parameter") }, Err(_) => if want.len() == 1 { bad.push("object_for_parameter:refused") } }
                    }
                    if parsed.objects_for_parameter(Parameter::from("never-a-parameter")).len() != 0 { bad.push("objects_for_parameter:absent") }
                    if parsed.clone().with_optional_parameter(Parameter::from("opt"), None::<Envelope>) != parsed { bad.push("with_optional_parameter(None)") }
                    let _ = format!("{}", parsed);
                    if Envelope::from(parsed.to_expression()).to_cbor_data() != env.to_cbor_data() { bad.push("to_expression") }
                    bad
                });
                match okf { Ok(bad) => for x in bad { acc.viol(format!("C18|expression|accessor|{x}"), "an accessor of the parsed expression disagrees with what was put in", cid(&format!("accessor-{x}")), json!({"envelope": crate::report::ff(&env)})) }, Err(p) => if p.loc.contains("queries.rs") { acc.inc("panics_counted_under_C16") } else { acc.viol(format!("C18|expression|accessor|panic|{}", p.site), p.msg.clone(), cid("accessor"), json!({})) } }
            }
            for (gi, g) in functions.iter().enumerate() {
                acc.inc("expected_function_checks");
                match catch(|| Expression::try_from((env.clone(), Some(g))).is_ok()) { Ok(ok) => if ok != (g == f) { acc.viol(format!("C18|expression|expected-function|{}", if ok { "accepts-other" } else { "rejects-own" }), "TryFrom with an expected function gives the wrong verdict", cid(&format!("expect-fn{gi}")), json!({})) }, Err(_) => acc.inc("panics_counted_under_C16") }
            }
            if pl.len() <= 1 {
                for note in notes { for (di, d) in dates.iter().enumerate() {
                    let cid2 = |s: &str| format!("fn{fi}/plist{pi}/note{}/date{di}/{s}", note.len());
                    // Request
                    acc.inc("requests");
                    let mut rq = Request::new_with_body(ex.clone(), id).with_note(note); if let Some(d) = d { rq = rq.with_date(d) }
                    let renv: Envelope = rq.clone().into();
                    for (lbl, e2) in [("direct", Some(renv.clone())), ("serialized", via(&renv)), ("carried", carried(&renv))] {
                        acc.inc("roundtrips");
                        match catch(|| e2.clone().map(Request::try_from)) { Ok(Some(Ok(b))) => if b != rq { acc.viol("C18|request|roundtrip|not-equal", "parsed request differs", cid2(lbl), json!({"envelope": crate::report::ff(&renv)})) }, Ok(Some(Err(er))) => acc.viol("C18|request|roundtrip|rejected", format!("{er}"), cid2(lbl), json!({"envelope": crate::report::ff(&renv)})), Ok(None) => acc.viol("C18|request|roundtrip|not-decodable", "", cid2(lbl), json!({})), Err(p) => acc.viol(format!("C18|request|panic|{}", p.loc), p.msg.clone(), cid2(lbl), json!({})) }
                    }
                    if let Ok(Ok(pr)) = catch(|| Request::try_from(renv.clone())) {
                        acc.inc("accessor_checks");
                        let bad = catch(|| { let mut bad: Vec<&'static str> = vec![];
                            if pr.id() != id { bad.push("id()") } if pr.note() != note { bad.push("note()") } if pr.date() != d.as_ref() { bad.push("date()") }
                            if pr.body() != &ex { bad.push("body()") } if pr.function() != f { bad.push("function()") }
                            if let Some((p0, v0)) = pl.first() { if pl.len() == 1 { match pr.object_for_parameter(params[*p0].clone()) { Ok(o) => if bind::dg(&o) != bind::dg(&values[*v0]) { bad.push("object_for_parameter") }, Err(_) => bad.push("object_for_parameter:refused") } } }
                            let _ = format!("{}", pr); let _ = pr.summary();
                            bad });
                        match bad { Ok(b) => for x in b { acc.viol(format!("C18|request|accessor|{x}"), "an accessor of the parsed request disagrees with what was put in", cid2(&format!("accessor-{x}")), json!({"envelope": crate::report::ff(&renv)})) }, Err(p) => if p.loc.contains("queries.rs") { acc.inc("panics_counted_under_C16") } else { acc.viol(format!("C18|request|accessor|panic|{}", p.site), p.msg.clone(), cid2("accessor"), json!({})) } }
                    }
                    let subj_ok = matches!(bind::observe(&renv.subject()), bind::O::Leaf(_, ref b) if b.starts_with(&[0xd9, 0x9c, 0x44]));
                    if !subj_ok || count(&renv, known_values::BODY) != 1 || count(&renv, known_values::NOTE) != (!note.is_empty()) as usize || count(&renv, known_values::DATE) != d.is_some() as usize { acc.viol("C18|request|shape", "request envelope does not have the documented shape (tagged ARID subject, one 'body', 'note' only when non-empty, 'date' only when present)", cid2("shape"), json!({"got": crate::report::ff(&renv)})) }
                    // wrong expected function
                    if let Ok(true) = catch(|| Request::try_from((renv.clone(), Some(&Function::from("never-this")))).is_ok()) { acc.viol("C18|request|expected-function|accepts-other", "", cid2("expect"), json!({})) }
                    // Event
                    acc.inc("events");
                    let mut ev = Event::<Envelope>::new(env.clone(), id).with_note(note); if let Some(d) = d { ev = ev.with_date(d) }
                    let eenv: Envelope = ev.clone().into();
                    for (lbl, e2) in [("direct", Some(eenv.clone())), ("serialized", via(&eenv)), ("carried", carried(&eenv))] {
                        acc.inc("roundtrips");
                        match catch(|| e2.clone().map(Event::<Envelope>::try_from)) { Ok(Some(Ok(b))) => if b != ev { acc.viol("C18|event|roundtrip|not-equal", "parsed event differs", cid2(lbl), json!({"envelope": crate::report::ff(&eenv)})) }, Ok(Some(Err(er))) => acc.viol("C18|event|roundtrip|rejected", format!("{er}"), cid2(lbl), json!({"envelope": crate::report::ff(&eenv)})), Ok(None) => acc.viol("C18|event|roundtrip|not-decodable", "", cid2(lbl), json!({})), Err(p) => acc.viol(format!("C18|event|panic|{}", p.loc), p.msg.clone(), cid2(lbl), json!({})) }
                    }
                    if let Ok(Ok(pe)) = catch(|| Event::<Envelope>::try_from(eenv.clone())) {
                        acc.inc("accessor_checks");
                        let bad = catch(|| { let mut bad: Vec<&'static str> = vec![];
                            if pe.id() != id { bad.push("id()") } if pe.note() != note { bad.push("note()") } if pe.date() != d.as_ref() { bad.push("date()") }
                            if !pe.content().is_identical_to(&env) { bad.push("content()") }
                            let _ = format!("{}", pe); let _ = pe.summary();
                            bad });
                        match bad { Ok(b) => for x in b { acc.viol(format!("C18|event|accessor|{x}"), "an accessor of the parsed event disagrees with what was put in", cid2(&format!("accessor-{x}")), json!({"envelope": crate::report::ff(&eenv)})) }, Err(p) => acc.viol(format!("C18|event|accessor|panic|{}", p.site), p.msg.clone(), cid2("accessor"), json!({})) }
                    }
                    let esub = matches!(bind::observe(&eenv.subject()), bind::O::Leaf(_, ref b) if b.starts_with(&[0xd9, 0x9c, 0x5a]));
                    if !esub || count(&eenv, known_values::CONTENT) != 1 || count(&eenv, known_values::NOTE) != (!note.is_empty()) as usize || count(&eenv, known_values::DATE) != d.is_some() as usize { acc.viol("C18|event|shape", "event envelope does not have the documented shape", cid2("shape"), json!({"got": crate::report::ff(&eenv)})) }
                    // malformed variants of request and event: single mutations (wrong tag / missing or duplicated body|content must be rejected)
                    if fi < 2 && pi < 3 {
                        for (mn, mf) in mutators(id) {
                            for (ty, base) in [("request", &renv), ("event", &eenv)] {
                                acc.inc("malformed_variants");
                                let m = mf(base);
                                let key = if ty == "request" { known_values::BODY } else { known_values::CONTENT };
                                let tagok = matches!(bind::observe(&m.subject()), bind::O::Leaf(_, ref b) if b.starts_with(if ty == "request" { &[0xd9, 0x9c, 0x44] } else { &[0xd9, 0x9c, 0x5a] }));
                                let must_reject = !tagok || count(&m, key) != 1;
                                let r = if ty == "request" { catch(|| Request::try_from(m.clone()).is_ok()) } else { catch(|| Event::<Envelope>::try_from(m.clone()).is_ok()) };
                                match r { Ok(true) if must_reject => acc.viol(format!("C18|{ty}|accepts-malformed|{mn}"), "a malformed envelope was accepted", cid2(&format!("{ty}-{mn}")), json!({"envelope": crate::report::ff(&m)})), Ok(_) => {}, Err(_) => acc.inc("panics_counted_under_C16") }
                            }
                        }
                    }
                } }
            }
        }
        acc
    }).reduce(Acc::new, Acc::merge);
    let mut acc = acc;
    // responses + malformed variants breadth-first to the mutation depth
    let mut responses: Vec<Response> = vec![Response::new_success(id), Response::new_failure(id), Response::new_early_failure()];
    for v in &values { responses.push(Response::new_success(id).with_result(v.clone())); responses.push(Response::new_failure(id).with_error(v.clone())); responses.push(Response::new_early_failure().with_error(v.clone())) }
    responses.push(Response::new_success(id).with_optional_result(None::<Envelope>));
    responses.push(Response::new_failure(id).with_optional_error(None::<Envelope>));
    let depth = if th { 3 } else { 2 };
    let muts = mutators(id);
    for (ri, r) in responses.iter().enumerate() {
        acc.inc("responses");
        let env: Envelope = r.clone().into();
        for (lbl, e2) in [("direct", Some(env.clone())), ("serialized", via(&env))] {
            acc.inc("roundtrips");
            match catch(|| e2.clone().map(Response::try_from)) { Ok(Some(Ok(b))) => if b != *r { acc.viol("C18|response|roundtrip|not-equal", "parsed response differs", format!("resp{ri}/{lbl}"), json!({"envelope": crate::report::ff(&env)})) }, Ok(Some(Err(er))) => acc.viol("C18|response|roundtrip|rejected", format!("{er}"), format!("resp{ri}/{lbl}"), json!({"envelope": crate::report::ff(&env)})), Ok(None) => acc.viol("C18|response|roundtrip|not-decodable", "", format!("resp{ri}/{lbl}"), json!({})), Err(p) => acc.viol(format!("C18|response|panic|{}", p.loc), p.msg.clone(), format!("resp{ri}/{lbl}"), json!({})) }
        }
        if let Ok(Ok(pr)) = catch(|| Response::try_from(env.clone())) {
            acc.inc("accessor_checks");
            let bad = catch(|| { let mut bad: Vec<&'static str> = vec![];
                if pr.is_ok() != r.is_ok() || pr.is_err() != r.is_err() || pr.is_ok() == pr.is_err() { bad.push("is_ok/is_err") }
                if pr.id() != r.id() { bad.push("id()") }
                if pr.is_ok() { if pr.result().ok().map(bind::dg) != r.result().ok().map(bind::dg) || pr.error().is_ok() || pr.expect_id() != id || pr.ok().is_none() || pr.err().is_some() { bad.push("result()/error()") } }
                else { if pr.error().ok().map(bind::dg) != r.error().ok().map(bind::dg) || pr.result().is_ok() || pr.err().is_none() || pr.ok().is_some() { bad.push("error()/result()") } }
                let _ = pr.extract_result::<String>(); let _ = pr.extract_error::<String>();
                let _ = format!("{}", pr); let _ = pr.summary();
                bad });
            match bad { Ok(b) => for x in b { acc.viol(format!("C18|response|accessor|{x}"), "an accessor of the parsed response disagrees with the original", format!("resp{ri}/accessor-{x}"), json!({"envelope": crate::report::ff(&env)})) }, Err(p) => acc.viol(format!("C18|response|accessor|panic|{}", p.site), p.msg.clone(), format!("resp{ri}/accessor"), json!({})) }
        }
        let is_resp_tag = matches!(bind::observe(&env.subject()), bind::O::Leaf(_, ref b) if b.starts_with(&[0xd9, 0x9c, 0x45]));
        if !is_resp_tag || count(&env, known_values::RESULT) + count(&env, known_values::ERROR) != 1 { acc.viol("C18|response|shape", "response envelope does not have the documented shape", format!("resp{ri}/shape"), json!({"got": crate::report::ff(&env)})) }
        acc.nontrivial(&("r", ri));
        if ri >= 20 && !th { continue }
        let mut frontier: Vec<(Envelope, String)> = vec![(env.clone(), String::new())];
        for _ in 0..depth {
            let mut next = vec![];
            for (e, path) in &frontier {
                for (mn, mf) in &muts {
                    acc.inc("malformed_variants");
                    let m = mf(e);
                    let p2 = format!("{path}/{mn}");
                    let (nr, ne) = (count(&m, known_values::RESULT), count(&m, known_values::ERROR));
                    let tagok = matches!(bind::observe(&m.subject()), bind::O::Leaf(_, ref b) if b.starts_with(&[0xd9, 0x9c, 0x45]));
                    let must_reject = !tagok || (nr > 0 && ne > 0) || (nr == 0 && ne == 0);
                    match catch(|| Response::try_from(m.clone()).is_ok()) {
                        Ok(true) if must_reject => acc.viol(format!("C18|response|accepts-malformed|{}", if !tagok { "wrong-subject-tag".to_string() } else { format!("results={}-errors={}", nr.min(2), ne.min(2)) }), "a response envelope with both or neither of result and error, or a wrongly tagged subject, was accepted", format!("resp{ri}{p2}"), json!({"envelope": crate::report::ff(&m), "results": nr, "errors": ne})),
                        Ok(_) => {}
                        Err(_) => acc.inc("panics_counted_under_C16"),
                    }
                    next.push((m, p2));
                }
            }
            frontier = next;
        }
    }
    acc.sample(json!({"function": "add", "parameters": [["lhs", "1"], ["x", "\"n\" [\"a\": \"b\"]"]], "notes": notes, "dates": dates.len()}));
    acc.sample(json!({"response_variants": responses.len(), "mutation_alphabet": muts.iter().map(|m| m.0).collect::<Vec<_>>(), "mutation_depth": depth}));
    let evals = acc.get("roundtrips") + acc.get("expected_function_checks") + acc.get("malformed_variants") + acc.get("accessor_checks");
    let cov = json!({"evaluations": evals,
        "rule": "functions x parameter lists (with repetition) x parameter values of every envelope kind x notes x dates x response variants: value -> envelope -> parse (directly and through serialisation) == value, documented shape on the observed envelope, expected-function check against every function; malformed variants breadth-first over the mutation alphabet; distinct = (function, parameter list) and response variants",
        "exhaustive": true, "bounds": {"parameter_list_length": maxp, "mutation_depth": depth, "functions": functions.len(), "values": values.len()}});
    finish(ctx, acc, "exploration", cov, vec!["tag numbers: function 40006, request 40004, response 40005, event 40026".into()])
}
