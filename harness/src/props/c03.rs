//! C03 - elision hides exactly the targets, no residue (DESIGN section 4, C03).
use crate::bind::{self, O};
use crate::families;
use crate::refmodel::ops;
use crate::refmodel::tree::{Kind, M, D};
use crate::report::{Acc, Ctx, catch, finish};
use bc_envelope::prelude::*;
use bc_components::DigestProvider as _;
use rayon::prelude::*;
use serde_json::json;
use std::collections::HashSet;

/// compare observation with the model result; `tolerant` = digests of elements that were already obscured and are targeted:
/// the statement only requires that they stay hidden (for the Elide action: as the bare digest).
fn matches(o: &O, x: &O, tolerant: &HashSet<D>, kind: Kind, path: &str) -> Option<(String, String)> {
    if let (O::Obscured(ko, d1), O::Obscured(_, d2)) = (o, x) {
        // ... except that a COMPRESSED element hides nothing (anyone can uncompress it): under the Encrypt action the statement allows "only
        // ciphertext", so a targeted compressed element must not stay compressed
        if d1 == d2 && tolerant.contains(d1) && (kind != Kind::Elided || *ko == Kind::Elided) && !(kind == Kind::Encrypted && *ko == Kind::Compressed) { return None }
    }
    if o.case_name() != x.case_name() { return Some((path.to_string(), format!("{}-expected-{}", o.case_name(), x.case_name()))) }
    if o.digest() != x.digest() { return Some((path.to_string(), "digest".into())) }
    let (a, b) = (o.children(), x.children());
    if a.len() != b.len() { return Some((path.to_string(), "element-count".into())) }
    for (i, ((n, c), (_, y))) in a.iter().zip(b.iter()).enumerate() { if let Some(d) = matches(c, y, tolerant, kind, &format!("{path}/{n}")) { let _ = i; return Some(d) } }
    match (o, x) { (O::Leaf(_, b1), O::Leaf(_, b2)) if b1 != b2 => Some((path.to_string(), "leaf-bytes".into())), (O::Known(_, a), O::Known(_, b)) if a != b => Some((path.to_string(), "known-value".into())), _ => None }
}
fn find(h: &[u8], n: &[u8]) -> bool { n.len() <= h.len() && h.windows(n.len()).any(|w| w == n) }
fn hidden_markers(m: &M, out: &mut Vec<Vec<u8>>) {
    match m {
        M::Obscured(_, _, Some(h)) => families::markers(h, out),
        M::Wrapped(e) => hidden_markers(e, out),
        M::Assertion(p, o) => { hidden_markers(p, out); hidden_markers(o, out) }
        M::Node(s, a) => { hidden_markers(s, out); for x in a { hidden_markers(x, out) } }
        _ => {}
    }
}
fn visible_markers(m: &M, out: &mut Vec<Vec<u8>>) {
    match m {
        M::Leaf(_) | M::Known(_) => families::markers(m, out),
        M::Wrapped(e) => visible_markers(e, out),
        M::Assertion(p, o) => { visible_markers(p, out); visible_markers(o, out) }
        M::Node(s, a) => { visible_markers(s, out); for x in a { visible_markers(x, out) } }
        _ => {}
    }
}
fn obscured_digests(m: &M, out: &mut HashSet<D>) {
    match m {
        M::Obscured(_, d, _) => { out.insert(*d); }
        M::Wrapped(e) => obscured_digests(e, out),
        M::Assertion(p, o) => { obscured_digests(p, out); obscured_digests(o, out) }
        M::Node(s, a) => { obscured_digests(s, out); for x in a { obscured_digests(x, out) } }
        _ => {}
    }
}

pub fn run(ctx: &Ctx) -> i32 {
    let th = ctx.tier.thorough();
    let w = if th { 8 } else { 6 };
    let w2 = if th { 5 } else { 4 };
    let wv = if th { 6 } else { 5 };
    let mut trees = families::marked(w);
    let nplain = trees.len();
    // the re-used-marker instantiation adds multi-position targets
    trees.extend(families::plain(if th { 6 } else { 5 }));
    // a whole assertion occurring twice (nested in a sibling or in the wrapped subject)
    trees.extend(families::repeated(if th { 7 } else { 6 }));
    let nbuilt = trees.len();
    trees.extend(families::decode_only()); trees.extend(families::nsn()); trees.extend(families::valued());
    let acc = trees.par_iter().enumerate().with_max_len(1).map(|(ti, m)| {
        let mut acc = Acc::new();
        acc.inc("trees");
        let e = if ti < nbuilt { bind::build(m, 0) } else { bind::build_route(m, bind::Route::Decode) };
        let mut ds = m.distinct_digests(); ds.push(families::absent_digest());
        let k = ds.len();
        // thorough tier bounds 2^k by skipping nothing: k <= 9 for w <= 8
        let mut already: HashSet<D> = HashSet::new(); obscured_digests(m, &mut already);
        for mask in families::masks(k) {
            let t: HashSet<D> = (0..k).filter(|i| mask >> i & 1 == 1).map(|i| ds[i]).collect();
            let tset = bind::dset(&t.iter().cloned().collect::<Vec<_>>());
            for revealing in [false, true] {
                for (kind, action) in super::c02::actions() {
                    acc.inc("elisions");
                    let cid = || format!("tree{ti}/mask{mask}/rev{}/{kind:?}", revealing as u8);
                    let want = ops::elide(m, &t, revealing, kind);
                    match catch(|| e.elide_set_with_action(&tset, revealing, &action)) {
                        Err(_) => acc.inc("panics_no_result_counted_under_C16"),
                        Ok(r) => {
                            let o = bind::observe(&r); let x = bind::expected(&want);
                            let mode = if revealing { "revealing" } else { "removing" };
                            if let Some((path, what)) = matches(&o, &x, &already, kind, "") {
                                let edge = path.rsplit('/').next().unwrap_or("root").to_string();
                                acc.viol(format!("C03|{mode}|{kind:?}|{}|{what}", if edge.is_empty() { "root" } else { &edge }), format!("result differs from the statement's semantics at {path}: {what}"), cid(),
                                    json!({"tree": m.show(), "targets": t.iter().map(hex::encode).collect::<Vec<_>>(), "expected": want.show(), "got": hex::encode(r.to_cbor_data())}));
                            } else {
                                let bytes = r.to_cbor_data();
                                if kind == Kind::Elided && already.is_empty() {
                                    if Some(&bytes) != want.encode().as_ref() { acc.viol(format!("C03|{mode}|Elided|bytes"), "serialised result is not exactly the encoding of the model result (an elided position must be a bare 32-byte digest)", cid(), json!({"tree": m.show(), "got": hex::encode(&bytes)})) }
                                }
                                if ti < nplain && kind != Kind::Compressed {
                                    // residue: marker bytes of hidden leaves must not occur in the serialisation (markers are unique per position)
                                    let mut hid = vec![]; hidden_markers(&want, &mut hid);
                                    let mut vis = vec![]; visible_markers(&want, &mut vis);
                                    for h in hid { if h.len() >= 9 && !vis.contains(&h) { acc.inc("residue_searches"); if find(&bytes, &h) {
                                        acc.viol(format!("C03|{mode}|{kind:?}|residue"), "content of a hidden element occurs in the serialised result", cid(), json!({"tree": m.show(), "marker": hex::encode(&h), "got": hex::encode(&bytes)})) } } }
                                }
                            }
                            if want != *m { acc.nontrivial(&(ti, mask, revealing, kind)); acc.inc("cases_hiding_something"); }
                        }
                    }
                }
            }
        }
        // second pass (light trees): the same menu on every first-pass result, i.e. on envelopes that already contain obscured elements.
        // A targeted element that is already compressed or encrypted must still end up hidden - as the bare digest under the Elide action.
        if ti < nplain && m.weight() <= w2 {
            for mask1 in 1u32..(1u32 << k) { for rev1 in [false, true] { for (kind1, action1) in super::c02::actions() {
                let t1: HashSet<D> = (0..k).filter(|i| mask1 >> i & 1 == 1).map(|i| ds[i]).collect();
                let want1 = ops::elide(m, &t1, rev1, kind1);
                if want1 == *m { continue }
                let Ok(r1) = catch(|| e.elide_set_with_action(&bind::dset(&t1.iter().cloned().collect::<Vec<_>>()), rev1, &action1)) else { continue };
                let mut already1: HashSet<D> = HashSet::new(); obscured_digests(&want1, &mut already1);
                for mask2 in 0u32..(1u32 << k) { for rev2 in [false, true] { for (kind2, action2) in super::c02::actions() {
                    acc.inc("second_pass_elisions");
                    let t2: HashSet<D> = (0..k).filter(|i| mask2 >> i & 1 == 1).map(|i| ds[i]).collect();
                    let want2 = ops::elide(&want1, &t2, rev2, kind2);
                    let cid = || format!("p2/tree{ti}/mask{mask1}/rev{}/{kind1:?}/then/mask{mask2}/rev{}/{kind2:?}", rev1 as u8, rev2 as u8);
                    match catch(|| r1.elide_set_with_action(&bind::dset(&t2.iter().cloned().collect::<Vec<_>>()), rev2, &action2)) {
                        Err(_) => acc.inc("panics_no_result_counted_under_C16"),
                        Ok(r2) => {
                            if let Some((path, what)) = matches(&bind::observe(&r2), &bind::expected(&want2), &already1, kind2, "") {
                                acc.viol(format!("C03|second-pass|{}|{kind1:?}-then-{kind2:?}|{what}", if rev2 { "revealing" } else { "removing" }), format!("on an envelope that already contains obscured elements the result differs from the statement's semantics at {path}: {what}"), cid(),
                                    json!({"tree": m.show(), "first": want1.show(), "expected": want2.show(), "got": hex::encode(r2.to_cbor_data())}));
                            }
                        }
                    }
                } } }
            } } }
        }
        // every convenience variant (set / array / single target, with and without an action, removing / revealing / explicit flag)
        // must give what the core call gives for the same targets
        if ti < nplain && m.weight() <= wv {
            for mask in 0u32..(1u32 << k) {
                let tv: Vec<Digest> = (0..k).filter(|i| mask >> i & 1 == 1).map(|i| Digest::from_data(ds[i])).collect();
                let tset: HashSet<Digest> = tv.iter().cloned().collect();
                let arr: Vec<&dyn DigestProvider> = tv.iter().map(|d| d as &dyn DigestProvider).collect();
                for revealing in [false, true] {
                    for (kind, action) in super::c02::actions() {
                        let Ok(core) = catch(|| bind::observe(&e.elide_set_with_action(&tset, revealing, &action))) else { continue };
                        let mut variants: Vec<(&'static str, Result<Envelope, crate::report::Panic>)> = vec![
                            ("elide_array_with_action", catch(|| e.elide_array_with_action(&arr, revealing, &action))),
                            (if revealing { "elide_revealing_set_with_action" } else { "elide_removing_set_with_action" }, catch(|| if revealing { e.elide_revealing_set_with_action(&tset, &action) } else { e.elide_removing_set_with_action(&tset, &action) })),
                            (if revealing { "elide_revealing_array_with_action" } else { "elide_removing_array_with_action" }, catch(|| if revealing { e.elide_revealing_array_with_action(&arr, &action) } else { e.elide_removing_array_with_action(&arr, &action) })),
                        ];
                        if kind == Kind::Elided {
                            variants.push(("elide_set", catch(|| e.elide_set(&tset, revealing))));
                            variants.push(("elide_array", catch(|| e.elide_array(&arr, revealing))));
                            variants.push((if revealing { "elide_revealing_set" } else { "elide_removing_set" }, catch(|| if revealing { e.elide_revealing_set(&tset) } else { e.elide_removing_set(&tset) })));
                            variants.push((if revealing { "elide_revealing_array" } else { "elide_removing_array" }, catch(|| if revealing { e.elide_revealing_array(&arr) } else { e.elide_removing_array(&arr) })));
                        }
                        if tv.len() == 1 {
                            let t1 = &tv[0];
                            variants.push(("elide_target_with_action", catch(|| e.elide_target_with_action(t1, revealing, &action))));
                            variants.push((if revealing { "elide_revealing_target_with_action" } else { "elide_removing_target_with_action" }, catch(|| if revealing { e.elide_revealing_target_with_action(t1, &action) } else { e.elide_removing_target_with_action(t1, &action) })));
                            if kind == Kind::Elided {
                                variants.push(("elide_target", catch(|| e.elide_target(t1, revealing))));
                                variants.push((if revealing { "elide_revealing_target" } else { "elide_removing_target" }, catch(|| if revealing { e.elide_revealing_target(t1) } else { e.elide_removing_target(t1) })));
                            }
                        }
                        for (vn, r) in variants {
                            acc.inc("variant_api_calls");
                            match r {
                                Ok(x) => if bind::observe(&x) != core { acc.viol(format!("C03|variant|{vn}|differs-from-core"), format!("{vn} gives another result than elide_set_with_action for the same targets, mode and action"), format!("variants/tree{ti}/mask{mask}/rev{}/{kind:?}/{vn}", revealing as u8), json!({"tree": m.show(), "got": hex::encode(x.to_cbor_data())})) },
                                Err(p) => acc.viol(format!("C03|variant|{vn}|panic|{}", p.site), p.msg.clone(), format!("variants/tree{ti}/mask{mask}/{vn}"), json!({})),
                            }
                        }
                    }
                }
            }
        }
        if ti % 211 == (ctx.seed as usize % 211) { acc.sample(json!({"tree": m.show(), "subsets": 1u32 << k})) }
        acc
    }).reduce(Acc::new, Acc::merge);
    // wide / deep shapes (array heads at 23/24/255/256, 24-deep wrapping): single and pair targets, both modes, three actions
    let wide = families::wide_all(th);
    let accw = wide.par_iter().enumerate().with_max_len(1).map(|(wi, (wn, m))| {
        let mut acc = Acc::new();
        let Ok(e) = catch(|| bind::build(m, 0)) else { return acc };
        let ds = m.distinct_digests();
        let picks: Vec<usize> = (0..ds.len()).filter(|i| *i < 6 || i % 61 == 0 || *i + 2 >= ds.len()).collect();
        let mut sets: Vec<Vec<D>> = picks.iter().map(|i| vec![ds[*i]]).collect();
        for w in picks.windows(2) { sets.push(vec![ds[w[0]], ds[w[1]]]) }
        // large target sets: more than 16 / 32 / 64 targets, from either end of the digest list, every second digest, padded with absent digests
        for k in [16usize, 17, 33, 65] { if ds.len() > k { sets.push(ds[..k].to_vec()); sets.push(ds[ds.len() - k..].to_vec()) } }
        if ds.len() > 8 { sets.push(ds.iter().step_by(2).cloned().collect()); sets.push(ds.iter().skip(1).step_by(2).cloned().collect()) }
        for k in [16usize, 40] { let mut v = vec![ds[ds.len() / 2]]; v.extend(families::absent_digests(k)); sets.push(v) }
        for tv in sets { let t: HashSet<D> = tv.iter().cloned().collect(); let tset = bind::dset(&tv);
            for revealing in [false, true] { for (kind, action) in super::c02::actions() {
                acc.inc("elisions");
                let want = ops::elide(m, &t, revealing, kind);
                match catch(|| e.elide_set_with_action(&tset, revealing, &action)) {
                    Err(_) => acc.inc("panics_no_result_counted_under_C16"),
                    Ok(r) => { if let Some((path, what)) = matches(&bind::observe(&r), &bind::expected(&want), &HashSet::new(), kind, "") { acc.viol(format!("C03|wide|{}|{kind:?}|{what}", if revealing { "revealing" } else { "removing" }), format!("wide shape {wn}: result differs from the statement's semantics at {path}"), format!("wide/{wn}/{}/{}targets/rev{}/{kind:?}", tv.iter().take(4).map(|d| hex::encode(&d[..3])).collect::<Vec<_>>().join("+"), tv.len(), revealing as u8), json!({"shape": wn})) }
                        else if kind == Kind::Elided && Some(r.to_cbor_data()) != want.encode() { acc.viol("C03|wide|Elided|bytes", "serialised result is not the encoding of the model result", format!("wide/{wn}"), json!({"shape": wn})) }
                        if want != *m { acc.nontrivial(&("wide", wi, tv.len(), revealing, kind)); } }
                }
            } }
        }
        acc
    }).reduce(Acc::new, Acc::merge);
    let acc = acc.merge(accw);
    // unelide: every (placeholder, candidate) pair of a family
    let fam: Vec<M> = { let mut f = families::marked(if th { 5 } else { 4 }); f.extend(families::plain(3)); f };
    let envs: Vec<Envelope> = fam.iter().map(|m| bind::build(m, 0)).collect();
    let acc2 = (0..envs.len()).into_par_iter().with_max_len(1).map(|i| {
        let mut acc = Acc::new();
        let ph = envs[i].elide();
        for j in 0..envs.len() {
            acc.inc("unelide_pairs");
            let cid = || format!("unelide/{i}/{j}");
            let same = fam[i].digest() == fam[j].digest();
            match catch(|| ph.unelide(envs[j].clone())) {
                Ok(Ok(r)) => {
                    if !same { acc.viol("C03|unelide|accepts-other-digest", "unelide accepted an envelope whose digest differs from the placeholder's", cid(), json!({"placeholder_for": fam[i].show(), "candidate": fam[j].show()})) }
                    else if bind::observe(&r) != bind::observe(&envs[j]) { acc.viol("C03|unelide|returns-other", "unelide returned something else than the candidate", cid(), json!({"candidate": fam[j].show()})) }
                    else { acc.nontrivial(&("unelide", i, j)) }
                }
                Ok(Err(_)) => { if same { acc.viol("C03|unelide|rejects-match", "unelide rejected the matching envelope", cid(), json!({"candidate": fam[j].show()})) } }
                Err(p) => acc.viol(format!("C03|unelide|panic|{}", p.loc), p.msg.clone(), cid(), json!({})),
            }
        }
        acc
    }).reduce(Acc::new, Acc::merge);
    let acc = acc.merge(acc2);
    let evals = acc.get("elisions") + acc.get("variant_api_calls") + acc.get("second_pass_elisions") + acc.get("unelide_pairs");
    let cov = json!({"evaluations": evals,
        "rule": "(all subsets for envelopes with at most 10 distinct digests - every tree of the weight-bounded families; for the hand-built decode-only shapes with more, the empty / singleton / pair / full target sets) case = (tree with unique leaf markers, target subset incl. one absent digest, mode, action) compared with the model's elision semantics + byte-exact encoding for Elide + marker residue search; plus all (placeholder, candidate) unelide pairs; non-trivial = the model result hides at least one element",
        "exhaustive": true,
        "bounds": {"tree_weight_marked": w, "second_pass_tree_weight": w2, "tree_weight_reused_markers": if th { 6 } else { 5 }, "unelide_family": envs.len()}});
    finish(ctx, acc, "exploration", cov, vec!["residue search looks for the dCBOR encoding of each hidden leaf (unique markers of >= 9 bytes, so a coincidental occurrence in ciphertext or a digest is negligible)".into(),
        "for an already-obscured targeted element any obscured form with the same digest is accepted (bare digest required for the Elide action)".into()])
}
