//! C06 - the decoder accepts only canonical well-formed envelopes and never crashes (DESIGN section 4, C06).
use crate::bind;
use crate::families;
use crate::refmodel::dcbor::{self, V};
use crate::refmodel::grammar;
use crate::refmodel::tree::M;
use crate::report::{Acc, Ctx, catch, finish};
use bc_envelope::prelude::*;
use rayon::prelude::*;
use serde_json::json;
use std::collections::HashSet;

/// reasons of the independent recogniser that correspond to classes the statement names: acceptance of such input is a violation
fn named_reason(r: &str) -> Option<&'static str> {
    Some(match r {
        "node without assertion" => "node-without-assertion",
        "non-assertion in assertion slot" => "non-assertion-in-assertion-slot",
        "assertions out of order" => "assertions-out-of-order",
        "repeated digest" => "repeated-digest",
        "unknown tag" => "unknown-tag",
        "digest length" => "digest-length",
        "assertion map arity" => "assertion-map-arity",
        "non-shortest head" | "indefinite or reserved additional info" | "map keys not strictly ascending" | "non-canonical encoding" | "trailing bytes" | "integral float not reduced" => "non-deterministic-cbor",
        "integral float not reduced: f32 outside i32 range" => "non-deterministic-cbor:integral-f32-outside-i32-range",
        "integral float not reduced: f64 outside i64 range" => "non-deterministic-cbor:integral-f64-outside-i64-range",
        _ => return None,
    })
}
/// rewrite the deprecated leaf tag 24 to 201 at envelope positions of a parsed input
fn alias24(v: &V) -> V {
    match v {
        V::Tag(24, x) => V::Tag(201, x.clone()),
        V::Tag(200, c) => V::Tag(200, Box::new(alias24(c))),
        V::Array(a) => V::Array(a.iter().map(alias24).collect()),
        V::Map(m) => V::Map(m.iter().map(|(k, x)| (alias24(k), alias24(x))).collect()),
        _ => v.clone(),
    }
}
/// the oracle for one input
pub fn judge(acc: &mut Acc, input: &[u8], class: &str, cid: &dyn Fn() -> String) {
    acc.inc("inputs");
    let rec = grammar::recognise(input);
    match catch(|| Envelope::try_from_cbor_data(input.to_vec()).map(|e| e.to_cbor_data())) {
        Err(p) => acc.viol(format!("C06|panic|{}", p.loc), format!("decoder panicked: {}", p.msg), cid(), json!({"input": hex::encode(input), "class": class})),
        Ok(Err(_)) => { acc.inc("rejected"); if rec.is_ok() { acc.inc("rejected_by_impl_accepted_by_recogniser_not_a_violation") } }
        Ok(Ok(re)) => {
            acc.inc("accepted");
            acc.nontrivial(&input);
            let mut ok = re == input;
            if !ok { if let Ok(v) = grammar::parse_cbor(input) { if let V::Tag(200, c) = &v { let al = V::Tag(200, Box::new(alias24(c))); if dcbor::bytes(&al) == re { ok = true; acc.inc("accepted_with_tag24_alias") } } } }
            if let Err(r) = &rec {
                if let Some(nr) = named_reason(&r.0) {
                    acc.viol(format!("C06|accepted|{nr}"), format!("decoder accepts input the specification requires it to reject ({})", r.0), cid(), json!({"input": hex::encode(input), "mutation": class, "reencodes_to": hex::encode(&re)}));
                    return;
                }
            }
            if !ok {
                let rclass = match &rec { Err(r) => r.0.clone(), Ok(_) => "recogniser-accepts".into() };
                acc.viol(format!("C06|reencode-differs|{}", rclass), "decoder accepts input whose re-encoding is not the input", cid(), json!({"input": hex::encode(input), "mutation": class, "reencodes_to": hex::encode(&re)}));
            }
        }
    }
}

/// the same oracle without building case ids eagerly (used for the 2^32 sweep)
fn judge_fast(acc: &mut Acc, input: &[u8]) { judge(acc, input, "all-strings", &|| format!("f4/{}", hex::encode(input))) }

// ---------- family 2: structural mutations on the CBOR item tree ----------
fn junk() -> Vec<(&'static str, V)> {
    let t = |s: &str| V::Text(s.into());
    vec![("leaf", V::Tag(201, Box::new(t("z")))), ("known", V::U(7)), ("wrapped", V::Tag(200, Box::new(V::Tag(201, Box::new(t("z")))))), ("text", t("z")), ("neg", V::Neg(0)), ("bool", V::Bool(true)),
        ("bytes31", V::Bytes(vec![1; 31])), ("bytes33", V::Bytes(vec![1; 33])), ("bytes0", V::Bytes(vec![])), ("bytes32", V::Bytes(vec![9; 32])), ("emptyarray", V::Array(vec![])), ("emptymap", V::Map(vec![])),
        ("float", V::F(1.5)), ("tag999", V::Tag(999, Box::new(V::U(1)))), ("tag24", V::Tag(24, Box::new(t("z")))), ("array-of-leaf", V::Array(vec![V::Tag(201, Box::new(t("z")))])),
        ("assertion", V::Map(vec![(V::Tag(201, Box::new(t("jp"))), V::Tag(201, Box::new(t("jo"))))]))]
}
fn kind(v: &V) -> String { match v { V::Array(_) => "array".into(), V::Map(_) => "map".into(), V::Tag(t, _) => format!("tag{t}"), V::Bytes(b) => format!("bytes{}", if b.len() == 32 { "32" } else { "N" }), V::U(_) => "uint".into(), V::Text(_) => "text".into(), _ => "other".into() } }
pub fn mutations(c: &V, out: &mut Vec<(String, V)>, rebuild: &dyn Fn(V) -> V, in_leaf: bool) {
    if !in_leaf { for (n, j) in junk() { out.push((format!("replace-{}-by-{}", kind(c), n), rebuild(j))) } }
    match c {
        V::Array(v) if !in_leaf => {
            // arrays longer than 12 elements (the wide boundary seeds): adjacent swaps and swaps with the two first / two last elements only
            let n = v.len(); let near = |i: usize, j: usize| n <= 12 || j == i + 1 || i <= 1 || j + 2 >= n;
            for i in 0..v.len() { for j in (i + 1)..v.len() { if !near(i, j) { continue } let mut w = v.clone(); w.swap(i, j); out.push((format!("array-swap-{}-{}", i.min(1), j.min(1)), rebuild(V::Array(w)))) } }
            for i in 0..v.len() {
                let mut w = v.clone(); w.push(v[i].clone()); out.push((format!("array-dup-{}", i.min(1)), rebuild(V::Array(w))));
                let mut w = v.clone(); w.insert(i, v[i].clone()); out.push((format!("array-dup-adjacent-{}", i.min(1)), rebuild(V::Array(w))));
                let mut w = v.clone(); w.remove(i); out.push((format!("array-drop-{}-len{}", i.min(1), w.len().min(2)), rebuild(V::Array(w))));
                // the same element a second time IN ANOTHER FORM: its elided placeholder (the bare digest) directly before and directly after it -
                // a repeated digest although no two elements are byte-identical
                if i >= 1 && !matches!(v[i], V::Bytes(_)) { if let Ok((m, _)) = grammar::recognise(&dcbor::bytes(&V::Tag(200, Box::new(v[i].clone())))) {
                    let ph = V::Bytes(m.digest().to_vec());
                    let mut w = v.clone(); w.insert(i, ph.clone()); out.push(("array-dup-elided-form-before".into(), rebuild(V::Array(w))));
                    let mut w = v.clone(); w.insert(i + 1, ph); out.push(("array-dup-elided-form-after".into(), rebuild(V::Array(w))));
                } }
            }
            for (n, j) in junk() { let mut w = v.clone(); w.push(j.clone()); out.push((format!("array-append-{n}"), rebuild(V::Array(w)))); let mut w = v.clone(); w.insert(1.min(v.len()), j); out.push((format!("array-insert-{n}"), rebuild(V::Array(w)))) }
            for i in 0..v.len() { if n > 12 && !(i <= 2 || i == n / 2 || i + 2 >= n) { continue } let vv = v.clone(); let rb = move |x: V| { let mut w = vv.clone(); w[i] = x; V::Array(w) }; mutations(&v[i], out, &|x| rebuild(rb(x)), false) }
        }
        V::Map(m) if !in_leaf => {
            let mut m2 = m.clone(); m2.push((V::Tag(201, Box::new(V::Text("k2".into()))), V::Tag(201, Box::new(V::Text("v2".into()))))); out.push(("map-two-entries".into(), rebuild(V::Map(m2))));
            out.push(("map-empty".into(), rebuild(V::Map(vec![]))));
            if let Some((k0, v0)) = m.first().cloned() {
                { let v0 = v0.clone(); let rb = move |x: V| V::Map(vec![(x, v0.clone())]); mutations(&k0, out, &|x| rebuild(rb(x)), false); }
                { let k0 = k0.clone(); let rb = move |x: V| V::Map(vec![(k0.clone(), x)]); mutations(&v0, out, &|x| rebuild(rb(x)), false); }
            }
        }
        V::Tag(t, inner) if !in_leaf => {
            for nt in [24u64, 200, 201, 40000, 40001, 40002, 40003, 999] { if nt != *t { out.push((format!("retag-{t}-to-{nt}"), rebuild(V::Tag(nt, inner.clone())))) } }
            out.push((format!("untag-{t}"), rebuild((**inner).clone())));
            out.push((format!("double-tag-{t}"), rebuild(V::Tag(*t, Box::new(V::Tag(*t, inner.clone()))))));
            let tv = *t; let rb = move |x: V| V::Tag(tv, Box::new(x));
            match tv {
                200 => mutations(inner, out, &|x| rebuild(rb(x)), false),
                40002 | 40003 => { // the arrays of encrypted / compressed elements: arity and field-type mutations
                    if let V::Array(f) = &**inner {
                        for i in 0..f.len() { let mut w = f.clone(); w.remove(i); out.push((format!("ext{tv}-drop-field{i}"), rebuild(rb(V::Array(w))))) }
                        let mut w = f.clone(); w.push(V::Bytes(vec![1, 2, 3])); out.push((format!("ext{tv}-fifth-element"), rebuild(rb(V::Array(w)))));
                        for i in 0..f.len() { for (n, j) in [("text", V::Text("z".into())), ("neg", V::Neg(4)), ("bytes0", V::Bytes(vec![])), ("uint", V::U(3))] { let mut w = f.clone(); w[i] = j; out.push((format!("ext{tv}-field{i}-as-{n}"), rebuild(rb(V::Array(w))))) } }
                    }
                }
                _ => {}
            }
        }
        V::Bytes(b) if !in_leaf && b.len() == 32 => { let mut x = b.clone(); x[31] ^= 1; out.push(("digest-last-bit".into(), rebuild(V::Bytes(x)))) }
        V::Text(s) if !in_leaf => out.push(("retype-text-to-bytes".into(), rebuild(V::Bytes(s.as_bytes().to_vec())))),
        _ => {}
    }
}
/// non-deterministic re-encodings of otherwise valid input (raw byte-level, they cannot be expressed as canonical V)
fn nondeterministic(valid: &[u8], out: &mut Vec<(String, Vec<u8>)>) {
    // (1) every head re-encoded one width wider than necessary; (2) indefinite-length forms; (3) trailing bytes
    let mut offsets = vec![]; head_offsets(valid, 0, &mut offsets);
    for (off, hl) in &offsets {
        let ib = valid[*off]; let (major, ai) = (ib >> 5, ib & 0x1f);
        if major == 7 { continue }
        let val: u64 = match ai { 0..=23 => ai as u64, 24 => valid[off + 1] as u64, 25 => u16::from_be_bytes([valid[off + 1], valid[off + 2]]) as u64, 26 => u32::from_be_bytes(valid[off + 1..off + 5].try_into().unwrap()) as u64, _ => continue };
        for wider in [24u8, 25, 26, 27] {
            if wider <= ai && ai >= 24 { continue }
            let mut b = valid[..*off].to_vec(); b.push((major << 5) | wider);
            match wider { 24 => { if val > 0xff { continue } b.push(val as u8) } 25 => { if val > 0xffff { continue } b.extend_from_slice(&(val as u16).to_be_bytes()) } 26 => b.extend_from_slice(&(val as u32).to_be_bytes()), _ => b.extend_from_slice(&val.to_be_bytes()) }
            b.extend_from_slice(&valid[off + hl..]);
            out.push((format!("non-shortest-head-major{major}-ai{wider}"), b));
        }
        if major == 4 || major == 5 || major == 2 || major == 3 {
            // indefinite length: 0x9f ... 0xff for arrays/maps (only syntactically right for arrays/maps; for strings it is simply malformed)
            let mut b = valid[..*off].to_vec(); b.push((major << 5) | 31); b.extend_from_slice(&valid[off + hl..]); b.push(0xff);
            out.push((format!("indefinite-major{major}"), b));
        }
    }
    let mut b = valid.to_vec(); b.push(0x00); out.push(("trailing-byte".into(), b));
    let mut b = valid.to_vec(); b.extend_from_slice(valid); out.push(("trailing-copy".into(), b));
}
/// offsets and head lengths of every data item head in a well-formed encoding
fn head_offsets(b: &[u8], mut i: usize, out: &mut Vec<(usize, usize)>) -> usize {
    let ib = b[i]; let (major, ai) = (ib >> 5, ib & 0x1f);
    let hl = match ai { 0..=23 => 1, 24 => 2, 25 => 3, 26 => 5, 27 => 9, _ => 1 };
    let val: u64 = match ai { 0..=23 => ai as u64, 24 => b[i + 1] as u64, 25 => u16::from_be_bytes([b[i + 1], b[i + 2]]) as u64, 26 => u32::from_be_bytes(b[i + 1..i + 5].try_into().unwrap()) as u64, 27 => u64::from_be_bytes(b[i + 1..i + 9].try_into().unwrap()), _ => 0 };
    out.push((i, hl)); i += hl;
    match major { 2 | 3 => i + val as usize, 4 => { for _ in 0..val { i = head_offsets(b, i, out) } i } 5 => { for _ in 0..2 * val { i = head_offsets(b, i, out) } i } 6 => head_offsets(b, i, out), _ => i }
}
/// hand-written inputs for the classes that cannot arise as single mutations
fn handwritten() -> Vec<(String, Vec<u8>)> {
    let leaf = |s: &str| { let mut b = vec![0xd8, 0xc9]; dcbor::enc(&V::Text(s.into()), &mut b); b };
    let env = |body: Vec<u8>| { let mut b = vec![0xd8, 0xc8]; b.extend(body); b };
    let mut out = vec![];
    // leaf payloads that dCBOR forbids
    for (n, payload) in [("float-2.0-as-f16", vec![0xf9, 0x40, 0x00]), ("float-1.5-as-f32", vec![0xfa, 0x3f, 0xc0, 0x00, 0x00]), ("float-1.5-as-f64", vec![0xfb, 0x3f, 0xf8, 0, 0, 0, 0, 0, 0]), ("nan-noncanonical", vec![0xf9, 0x7e, 0x01]), ("nan-f64", vec![0xfb, 0x7f, 0xf8, 0, 0, 0, 0, 0, 0]),
        ("neg-zero-f16", vec![0xf9, 0x80, 0x00]), ("map-unsorted", vec![0xa2, 0x02, 0x01, 0x01, 0x02]), ("map-duplicate-key", vec![0xa2, 0x01, 0x01, 0x01, 0x02]), ("simple-undefined", vec![0xf7]), ("simple-16", vec![0xf0]), ("simple-ext", vec![0xf8, 0x20]),
        ("text-invalid-utf8", vec![0x62, 0xc3, 0x28]), ("text-non-nfc", vec![0x63, 0x65, 0xcc, 0x81]), ("uint-as-2bytes", vec![0x19, 0x00, 0x01]), ("break-alone", vec![0xff]), ("bigfloat-reducible-1e18", vec![0xfb, 0x43, 0xab, 0xc1, 0x6d, 0x67, 0x4e, 0xc8, 0x00]),
        // integral floats outside the i32 / i64 range (dcbor 0.17.1 validates f32 against i32 and f64 against i64 only, then re-encodes them as integers)
        ("f32-integral-2^40", vec![0xfa, 0x53, 0x80, 0x00, 0x00]), ("f32-integral-negative-large", vec![0xfa, 0xd8, 0xc8, 0xd8, 0xc9]), ("f64-integral-2^63", vec![0xfb, 0x43, 0xe0, 0, 0, 0, 0, 0, 0]),
        ("f64-integral-below-i64", vec![0xfb, 0xc3, 0xe0, 0, 0, 0, 0, 0, 0x01]), ("f32-integral-2^31", vec![0xfa, 0x4f, 0x00, 0x00, 0x00])] {
        let mut b = vec![0xd8, 0xc9]; b.extend(payload); out.push((format!("leaf-{n}"), env(b)));
    }
    // assertion map with unsorted / duplicate keys (two entries), node arrays of length 0 and 1
    let (p, o) = (leaf("p"), leaf("o"));
    let mut m = vec![0xa2]; m.extend(&p); m.extend(&o); m.extend(&p); m.extend(&o); out.push(("assertion-map-duplicate-entry".into(), env(m)));
    out.push(("node-array-empty".into(), env(vec![0x80])));
    let mut a = vec![0x81]; a.extend(leaf("s")); out.push(("node-array-len1".into(), env(a)));
    // untagged top level, doubly tagged top level
    out.push(("top-untagged-leaf".into(), leaf("s")));
    out.push(("top-known-untagged".into(), vec![0x01]));
    out.push(("empty-input".into(), vec![]));
    out.push(("tag-only".into(), vec![0xd8, 0xc8]));
    out
}

pub fn seeds(w: usize) -> Vec<(String, Vec<u8>)> {
    let mut out = vec![];
    let key = bind::key0();
    let mut trees = families::plain(w); trees.extend(families::decode_only()); trees.extend(families::nsn()); trees.extend(families::valued_few());
    let nb = trees.len() - families::decode_only().len() - families::nsn().len() - families::valued_few().len();
    for (ti, m) in trees.iter().enumerate() {
        let e = if ti < nb { bind::build(m, 0) } else { bind::build_route(m, bind::Route::Decode) };
        let ib = e.to_cbor_data();
        // the MODEL's encoding of the same tree is an input in its own right whenever the implementation's encoder writes something else
        // (then the decoder is judged on the specified form, not only on what this encoder happens to emit)
        if let Some(mb) = m.encode() { if mb != ib { out.push((format!("tree{ti}-model-bytes:{}", m.show()), mb)) } }
        out.push((format!("tree{ti}:{}", m.show()), ib));
    }
    let base = Envelope::new("Alice").add_assertion("knows", "Bob").add_assertion("knows", "Carol").add_assertion(known_values::NOTE, 7);
    let ex: Vec<(&str, Envelope)> = vec![
        ("3assert", base.clone()), ("enc-subject", base.encrypt_subject_opt(&key, Some(bind::nonce0())).unwrap()), ("compressed", base.compress().unwrap()), ("compress-subject", base.compress_subject().unwrap()),
        ("elided-subject", base.elide_removing_target(&base.subject())), ("elided-assertion", base.elide_removing_target(&base.assertions()[0])),
        ("salted-assertion", base.add_assertion_envelope(Envelope::new_assertion("x", "y").add_salt_instance(crate::explore::fixed_salt())).unwrap()),
        ("enc-assertion", base.elide_removing_set_with_action(&bind::dset(&[bind::dg(&base.assertions()[1])]), &ObscureAction::Encrypt(key.clone()))),
        ("wrapped-node", base.wrap_envelope().add_assertion("outer", base.wrap_envelope())),
        ("legacy-leaf", Envelope::try_from_cbor_data(vec![0xd8, 0xc8, 0x82, 0xd8, 0x18, 0x61, 0x73, 0xa1, 0xd8, 0x18, 0x61, 0x70, 0xd8, 0xc9, 0x61, 0x6f]).unwrap()),
    ];
    for (n, e) in ex { out.push((n.to_string(), e.to_cbor_data())) }
    // byte-string leaves whose bytes are themselves one complete CBOR item (h'01', h'6161' = "aa", h'80' = [], h'f4', h'd8c901' = 201(1)), under the
    // current leaf tag and - as raw input, the encoder never emits it - under the deprecated tag 24, alone and inside a node
    for (n, inner) in [("01", vec![0x01u8]), ("6161", vec![0x61, 0x61]), ("80", vec![0x80]), ("f4", vec![0xf4]), ("d8c901", vec![0xd8, 0xc9, 0x01]), ("ff", vec![0xff]), ("0102", vec![0x01, 0x02])] {
        for tag in [201u64, 24] {
            let leaf = V::Tag(tag, Box::new(V::Bytes(inner.clone())));
            out.push((format!("bytes-leaf-{n}-tag{tag}"), dcbor::bytes(&V::Tag(200, Box::new(leaf.clone())))));
            if n == "01" || n == "6161" { out.push((format!("bytes-leaf-{n}-tag{tag}-in-node"), dcbor::bytes(&V::Tag(200, Box::new(V::Array(vec![leaf.clone(), V::Map(vec![(V::Tag(201, Box::new(V::Text("p".into()))), leaf.clone())])])))))) }
        }
    }
    // nodes whose array head sits at a width boundary (24 and 25 elements; 256 elements in the heavier families)
    for (wn, m) in families::wide() { let cnt: usize = wn.strip_prefix("node-").and_then(|x| x.strip_suffix("-assertions")).and_then(|x| x.parse().ok()).unwrap_or(0); if cnt > 0 && (cnt <= 65 || w >= 6) && w >= 4 { if let Some(b) = m.encode() { out.push((wn, b)) } } }
    out
}

fn v_small(v: &V) -> bool { dcbor::bytes(v).len() <= 40 }

pub fn run(ctx: &Ctx) -> i32 {
    // the sweep runs in a child process so that an abort (stack overflow, allocation failure) is attributed, not a hang or crash of the checker
    if std::env::var("VH_C06_CHILD").is_err() && ctx.replay.is_none() {
        let exe = std::env::current_exe().expect("current exe");
        let st = std::process::Command::new(exe).arg("C06").arg(ctx.tier.name()).env("VH_C06_CHILD", "1").status().expect("spawn child");
        return match st.code() {
            Some(c) if c == 0 || c == 1 => c,
            Some(2) => 2,
            other => {
                let path = format!("{}/replays/C06/process-abort.json", ctx.root);
                let _ = std::fs::create_dir_all(format!("{}/replays/C06", ctx.root));
                let _ = std::fs::write(&path, json!({"property": "C06", "signature": "C06|crash|process-abort", "what": format!("decoder sweep child process died: {:?}", other), "replay_cmd": "VH_C06_CHILD=1 ./check C06 quick"}).to_string());
                let mut acc = Acc::new(); acc.viol("C06|crash|process-abort", format!("the decoding sweep aborted the process ({:?})", st), "child", json!({}));
                finish(ctx, acc, "exploration", json!({"evaluations": 1, "distinct_nontrivial": 2, "rule": "child process aborted", "samples": ["abort"], "exhaustive": false}), vec![])
            }
        };
    }
    let th = ctx.tier.thorough();
    let mut acc = Acc::new();
    // family 1: valid encodings
    let sd = seeds(if th { 6 } else { 5 });
    for (n, b) in &sd { judge(&mut acc, b, "valid", &|| format!("f1/{n}")); if grammar::recognise(b).is_err() { acc.viol("C06|machinery|recogniser-rejects-valid", "independent recogniser rejects a library-produced encoding", format!("f1/{n}"), json!({"input": hex::encode(b)})) } }
    acc.add("family1_valid", sd.len() as u64);
    // family 2: structural mutations (single; double in the thorough tier) + non-deterministic re-encodings + hand-written classes
    let f2: Acc = sd.par_iter().with_max_len(1).map(|(n, b)| {
        let mut acc = Acc::new();
        let Ok(v) = grammar::parse_cbor(b) else { return acc };
        let mut muts = vec![]; mutations(&v, &mut muts, &|x| x, false);
        let mut seen: HashSet<Vec<u8>> = HashSet::new();
        for (i, (class, mv)) in muts.iter().enumerate() {
            let mb = dcbor::bytes(mv);
            if !seen.insert(mb.clone()) { continue }
            acc.inc("family2_single");
            judge(&mut acc, &mb, class, &|| format!("f2/{n}/m{i}:{class}"));
            if (th && !n.starts_with("node-")) || v_small(&v) {
                let mut m2 = vec![]; mutations(mv, &mut m2, &|x| x, false);
                for (j, (c2, mv2)) in m2.iter().enumerate() { let mb2 = dcbor::bytes(mv2); if seen.insert(mb2.clone()) { acc.inc("family2_double"); judge(&mut acc, &mb2, c2, &|| format!("f2/{n}/m{i}:{class}/m{j}:{c2}")) } }
            }
        }
        let mut nd = vec![]; nondeterministic(b, &mut nd);
        for (i, (class, mb)) in nd.iter().enumerate() { acc.inc("family2_nondeterministic"); judge(&mut acc, mb, class, &|| format!("f2nd/{n}/{i}:{class}")) }
        acc
    }).reduce(Acc::new, Acc::merge);
    acc = acc.merge(f2);
    for (class, b) in handwritten() { acc.inc("family2_handwritten"); judge(&mut acc, &b, &class, &|| format!("f2hw/{class}")) }
    // family 3: every single-byte replacement, deletion and insertion
    let mut sd3 = seeds(if th { 5 } else { 4 });
    sd3.retain(|(n, b)| !n.starts_with("node-") || b.len() <= if th { 900 } else { 220 });
    let f3: Acc = sd3.par_iter().with_max_len(1).map(|(n, b)| {
        let mut acc = Acc::new();
        for off in 0..b.len() {
            for x in 0..=255u8 { if x != b[off] { let mut m = b.clone(); m[off] = x; acc.inc("family3_bytes"); judge(&mut acc, &m, "byte-replace", &|| format!("f3/{n}/replace@{off}={x:02x}")) } }
            let mut m = b.clone(); m.remove(off); acc.inc("family3_bytes"); judge(&mut acc, &m, "byte-delete", &|| format!("f3/{n}/delete@{off}"));
        }
        for off in 0..=b.len() { for x in 0..=255u8 { let mut m = b.clone(); m.insert(off, x); acc.inc("family3_bytes"); judge(&mut acc, &m, "byte-insert", &|| format!("f3/{n}/insert@{off}={x:02x}")) } }
        acc
    }).reduce(Acc::new, Acc::merge);
    acc = acc.merge(f3);
    // family 4: ALL byte strings up to the length bound, bare and prefixed with the envelope tag
    let maxlen = 3;
    let f4: Acc = (0..512usize).into_par_iter().map(|chunk| {
        let mut acc = Acc::new();
        let prefix: Vec<u8> = if chunk >= 256 { vec![0xd8, 0xc8] } else { vec![] };
        let first = (chunk % 256) as u8;
        // strings of length >= 1 starting with `first`; the empty string is handled by chunk 0 / 256
        if first == 0 { acc.inc("family4_all_strings"); judge(&mut acc, &prefix, "all-strings", &|| format!("f4/{}", hex::encode(&prefix))) }
        for len in 1..=maxlen {
            let count = 256usize.pow(len as u32 - 1);
            for i in 0..count {
                let mut b = prefix.clone(); b.push(first); let mut x = i; for _ in 1..len { b.push((x & 0xff) as u8); x >>= 8; }
                acc.inc("family4_all_strings");
                judge(&mut acc, &b, "all-strings", &|| format!("f4/{}", hex::encode(&b)));
            }
        }
        acc
    }).reduce(Acc::new, Acc::merge);
    acc = acc.merge(f4);
    if th {
        // family 4b: ALL strings of length 4 under the envelope tag (2^32 inputs), split by the first two bytes
        let f4b: Acc = (0..65536usize).into_par_iter().map(|hi| {
            let mut acc = Acc::new();
            let (b0, b1) = ((hi >> 8) as u8, (hi & 0xff) as u8);
            // an input whose first item head already makes it ill-formed is rejected after reading one or two bytes; every one is still decoded
            for lo in 0..65536usize { let b = [0xd8, 0xc8, b0, b1, (lo >> 8) as u8, (lo & 0xff) as u8]; acc.inc("family4_all_strings"); judge_fast(&mut acc, &b); }
            acc
        }).reduce(Acc::new, Acc::merge);
        acc = acc.merge(f4b);
    }
    // nesting depth: wrapped / node-subject chains 256 deep decode without crashing (on a thread with the default main-thread stack size)
    let depth_ok = std::thread::Builder::new().stack_size(8 << 20).spawn(|| {
        let mut acc = Acc::new();
        for depth in [64usize, 128, 256] {
            let mut b = vec![]; for _ in 0..=depth { b.extend_from_slice(&[0xd8, 0xc8]) } b.extend_from_slice(&[0xd8, 0xc9, 0x61, 0x78]);
            judge(&mut acc, &b, "deep-wrapped", &|| format!("depth/wrapped{depth}"));
            // nodes nested as subjects: [[[leaf, a], a], a]
            let assertion = [0xa1u8, 0xd8, 0xc9, 0x61, 0x70, 0xd8, 0xc9, 0x61, 0x6f];
            let mut b = vec![0xd8, 0xc8]; for _ in 0..depth { b.push(0x82) } b.extend_from_slice(&[0xd8, 0xc9, 0x61, 0x78]); for _ in 0..depth { b.extend_from_slice(&assertion) }
            judge(&mut acc, &b, "deep-node-subject", &|| format!("depth/nodes{depth}"));
            let mut b = vec![0xd8, 0xc8, 0xd8, 0xc9]; for _ in 0..depth { b.push(0x81) } b.push(0x01);
            judge(&mut acc, &b, "deep-leaf-array", &|| format!("depth/leafarray{depth}"));
        }
        acc
    }).unwrap().join().expect("depth thread");
    acc = acc.merge(depth_ok);
    acc.sample(json!({"family": 2, "example_mutation_classes": ["array-swap-1-1", "array-dup-1", "replace-map-by-leaf", "retag-201-to-999", "ext40002-fifth-element", "non-shortest-head-major4-ai24"]}));
    acc.sample(json!({"family": 1, "seed": sd[5].0, "bytes": hex::encode(&sd[5].1)}));
    let evals = acc.get("inputs");
    let cov = json!({"evaluations": evals,
        "rule": "input families: (1) valid encodings, (2) single (thorough: double) structural mutations of the CBOR item tree + non-deterministic re-encodings + hand-written forbidden forms, (3) every single-byte replacement/deletion/insertion, (4) ALL byte strings up to the length bound bare and under the envelope tag; oracle: Err, or Ok with identical re-encoding (tag-24 alias tolerated), and Ok is a violation when the independent recogniser rejects for a reason the statement names; distinct non-trivial = distinct accepted inputs",
        "exhaustive": true,
        "bounds": {"structural_seed_tree_weight": if th { 6 } else { 5 }, "byte_mutation_seed_tree_weight": if th { 5 } else { 4 }, "all_strings_max_len": maxlen, "all_strings_under_envelope_tag_len": if th { 4 } else { 3 }, "nesting_depth": 256, "double_mutations": if th { "all seeds" } else { "seeds of at most 40 encoded bytes" }}});
    finish(ctx, acc, "exploration", cov, vec!["inputs the implementation rejects but my recogniser accepts are only counted (the statement lets the decoder be stricter; the recogniser does not check NFC)".into(),
        "the sweep runs in a child process; an abort is reported as C06|crash|process-abort".into()])
}
