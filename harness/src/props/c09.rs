//! C09 - signatures bind to the subject digest, verification is exact (DESIGN section 4, C09).
use crate::bind;
use crate::families;
use crate::refmodel::tree::M;
use crate::report::{Acc, Ctx, catch, finish};
use bc_envelope::prelude::*;
use bc_components::{Ed25519PrivateKey, PrivateKeyBase, Signature, SignatureScheme, Signer, SigningOptions, SigningPrivateKey, SigningPublicKey, Verifier};
use rayon::prelude::*;
use serde_json::json;
use std::collections::HashSet;

pub struct Id { pub name: &'static str, pub scheme: &'static str, pub sk: SigningPrivateKey, pub pk: SigningPublicKey, pub opts: Option<SigningOptions> }
// SigningOptions holds an Rc in its Schnorr variant; we only ever store the Ssh variant (plain data)
unsafe impl Sync for Id {}
unsafe impl Send for Id {}
pub fn ssh_opts() -> Option<SigningOptions> { Some(SigningOptions::Ssh { namespace: "verif".to_string(), hash_alg: ssh_key::HashAlg::Sha256 }) }
pub fn identity(name: &'static str, scheme: &'static str) -> Id {
    let pkb = PrivateKeyBase::from_data(format!("seed-{name}-0123456789abcdef").as_bytes());
    let (sk, opts) = match scheme {
        "schnorr" => (pkb.schnorr_signing_private_key(), None),
        "ecdsa" => (pkb.ecdsa_signing_private_key(), None),
        "ed25519" => (pkb.ed25519_signing_private_key(), None),
        "ssh-ed25519" => (pkb.ssh_signing_private_key(ssh_key::Algorithm::Ed25519, name).expect("ssh key"), ssh_opts()),
        "ssh-ecdsa-p256" => (pkb.ssh_signing_private_key(ssh_key::Algorithm::Ecdsa { curve: ssh_key::EcdsaCurve::NistP256 }, name).expect("ssh key"), ssh_opts()),
        "ssh-dsa" => (pkb.ssh_signing_private_key(ssh_key::Algorithm::Dsa, name).expect("ssh key"), ssh_opts()),
        "mldsa44" => { let (sk, pk) = SignatureScheme::MLDSA44.keypair(); return Id { name, scheme, sk, pk, opts: None } }
        "mldsa65" => { let (sk, pk) = SignatureScheme::MLDSA65.keypair(); return Id { name, scheme, sk, pk, opts: None } }
        _ => panic!("scheme"),
    };
    let pk = sk.public_key().expect("public key");
    Id { name, scheme, sk, pk, opts }
}
fn sign(e: &Envelope, id: &Id, meta: bool) -> Envelope {
    let md = if meta { Some(SignatureMetadata::new().with_assertion(known_values::NOTE, format!("signed by {}", id.name))) } else { None };
    e.add_signature_opt(&id.sk, id.opts.clone(), md)
}
fn verifies_bool(r: Result<anyhow::Result<bool>, crate::report::Panic>) -> Result<bool, crate::report::Panic> { r.map(|x| matches!(x, Ok(true))) }

/// all index vectors of length len over 0..n
fn lists(n: usize, len: usize) -> Vec<Vec<usize>> { let mut out = vec![vec![]]; for _ in 0..len { let mut nx = vec![]; for s in &out { for i in 0..n { let mut t: Vec<usize> = s.clone(); t.push(i); nx.push(t) } } out = nx } out }

fn check_all(acc: &mut Acc, v: &Envelope, ids: &[Id], signed: u32, class: &str, cid: &dyn Fn() -> String, full_lists: bool) { check_all_dc(acc, v, ids, signed, 0, class, cid, full_lists) }
/// `dontcare`: keys whose verdict the statement does not determine (only the metadata clause is checked for them)
fn check_all_dc(acc: &mut Acc, v: &Envelope, ids: &[Id], signed: u32, dontcare: u32, class: &str, cid: &dyn Fn() -> String, full_lists: bool) {
    for (k, id) in ids.iter().enumerate() {
        let exp = signed >> k & 1 == 1;
        acc.inc("verification_checks");
        for (api, got) in [
            ("has_signature_from", verifies_bool(catch(|| v.has_signature_from(&id.pk)))),
            ("verify_signature_from", catch(|| v.verify_signature_from(&id.pk)).map(|r| r.is_ok())),
        ] {
            match got {
                Err(p) => { if class != "decorated-signed" { acc.viol(format!("C09|{api}|{class}|panic|{}", p.loc), p.msg.clone(), cid(), json!({"envelope": hex::encode(v.to_cbor_data()), "key": id.name})) } else { acc.inc("panics_counted_under_C16") } }
                Ok(g) => if g != exp && dontcare >> k & 1 == 0 {
                    acc.viol(format!("C09|{api}|{class}|expected-{exp}-got-{g}"), format!("key {} ({}) {} verify but the call says otherwise", id.name, id.scheme, if exp { "must" } else { "must not" }), cid(), json!({"envelope": hex::encode(v.to_cbor_data()), "key": id.name, "signers_mask": signed}));
                },
            }
        }
        // metadata returned for a verified signature must itself be covered by a signature from the same key
        acc.inc("verification_checks");
        if let Ok(Ok(md)) = catch(|| v.verify_signature_from_returning_metadata(&id.pk)) {
            if !exp && dontcare >> k & 1 == 0 { acc.viol(format!("C09|returning_metadata|{class}|expected-false-got-true"), "metadata returned for a key that did not sign", cid(), json!({"envelope": hex::encode(v.to_cbor_data()), "key": id.name})) }
            else if exp && md.has_assertions() {
                // find the 'signed' object whose wrapped subject is this metadata envelope and check its outer signature independently
                let mut covered = false;
                for a in v.assertions() {
                    let Some(o) = a.as_object() else { continue };
                    if a.as_predicate().map(|p| bind::dg(&p)) != Some(M::Known(3).digest()) { continue }
                    let subj = o.subject();
                    if let Ok(inner) = subj.unwrap_envelope() { if inner.is_identical_to(&md) {
                        for oa in o.assertions() { if let (Some(p), Some(ob)) = (oa.as_predicate(), oa.as_object()) { if bind::dg(&p) == M::Known(3).digest() { if let Ok(sig) = ob.extract_subject::<Signature>() { if id.pk.verify(&sig, &bind::dg(&subj)) { covered = true } } } } }
                    } }
                }
                if !covered { acc.viol(format!("C09|returning_metadata|{class}|metadata-not-covered"), "metadata was returned that is not covered by a signature from the verifying key", cid(), json!({"envelope": hex::encode(v.to_cbor_data()), "key": id.name, "metadata": crate::report::ff(&md)})) }
                else { acc.inc("metadata_coverage_confirmed") }
            }
        }
    }
    // the explicit-signature entry points: a signature over the SUBJECT digest verifies on this envelope whatever else it carries
    if dontcare == 0 && class != "transplanted" {
        let sd = bind::dg(&v.subject());
        for (k, id) in ids.iter().enumerate().take(2) {
            if id.scheme.starts_with("mldsa") || id.scheme.starts_with("ssh-ecdsa") { continue }
            acc.inc("verification_checks");
            let Ok(Ok(sig)) = catch(|| id.sk.sign_with_options(&sd, id.opts.clone())) else { continue };
            let other = &ids[(k + 1) % ids.len()];
            match catch(|| (v.is_verified_signature(&sig, &id.pk), v.verify_signature(&sig, &id.pk).is_ok(), v.is_verified_signature(&sig, &other.pk), v.verify_signature(&sig, &other.pk).is_ok())) {
                Ok((true, true, false, false)) => {}
                Ok(got) => acc.viol(format!("C09|is_verified_signature|{class}|expected-(true,true,false,false)-got-{got:?}"), "a signature over the subject digest is not verified on this envelope by the explicit-signature API (or verifies under another key)", cid(), json!({"envelope": hex::encode(v.to_cbor_data()), "key": id.name})),
                Err(p) => acc.viol(format!("C09|is_verified_signature|panic|{}", p.site), p.msg.clone(), cid(), json!({})),
            }
        }
    }
    // key lists and thresholds
    if dontcare != 0 { return }
    let maxlen = if full_lists { 3 } else { 2 };
    // an empty key list never satisfies a threshold of one or more
    for t in [1usize, 2] {
        acc.inc("threshold_checks");
        let none: Vec<&dyn Verifier> = vec![];
        if let Ok(true) = verifies_bool(catch(|| v.has_signatures_from_threshold(&none, Some(t)))) { acc.viol(format!("C09|threshold|{class}|empty-key-list-accepted"), format!("an empty key list satisfies threshold {t}"), cid(), json!({"envelope": hex::encode(v.to_cbor_data())})) }
    }
    for len in 1..=maxlen {
        for idx in lists(ids.len(), len) {
            let keys: Vec<&dyn Verifier> = idx.iter().map(|&i| &ids[i].pk as &dyn Verifier).collect();
            let valid = idx.iter().filter(|&&i| signed >> i & 1 == 1).count();
            for t in std::iter::once(None).chain((1..=len + 1).map(Some)) {
                acc.inc("threshold_checks");
                let need = t.unwrap_or(len);
                let exp = valid >= need;
                match verifies_bool(catch(|| v.has_signatures_from_threshold(&keys, t))) {
                    Ok(g) if g == exp => {}
                    Ok(g) => acc.viol(format!("C09|threshold|{class}|expected-{exp}-got-{g}"), format!("key list {:?} threshold {:?}: {valid} valid", idx.iter().map(|i| ids[*i].name).collect::<Vec<_>>(), t), cid(), json!({"envelope": hex::encode(v.to_cbor_data()), "signers_mask": signed})),
                    Err(p) => if class != "decorated-signed" { acc.viol(format!("C09|threshold|{class}|panic|{}", p.loc), p.msg.clone(), cid(), json!({})) } else { acc.inc("panics_counted_under_C16") },
                }
                if t.is_none() {
                    let g = catch(|| v.verify_signatures_from(&keys)).map(|r| r.is_ok());
                    if let Ok(g) = g { if g != exp { acc.viol(format!("C09|verify_signatures_from|{class}|expected-{exp}-got-{g}"), "all-of verification disagrees", cid(), json!({"envelope": hex::encode(v.to_cbor_data())})) } }
                }
            }
        }
    }
}

pub fn run(ctx: &Ctx) -> i32 {
    let th = ctx.tier.thorough();
    // identity sets: A, B, C may sign; D never signs
    let assignments: Vec<[&'static str; 4]> = if th {
        vec![["schnorr", "ed25519", "ecdsa", "ed25519"], ["ssh-ed25519", "mldsa44", "schnorr", "ecdsa"], ["ecdsa", "ssh-ecdsa-p256", "ed25519", "ssh-ed25519"], ["mldsa65", "ssh-dsa", "ssh-ed25519", "schnorr"]]
    } else { vec![["schnorr", "ed25519", "ecdsa", "ed25519"], ["ssh-ed25519", "mldsa44", "ed25519", "schnorr"]] };
    let bases: Vec<M> = { let mut b = families::plain(if th { 4 } else { 3 }); b.extend(families::nsn().into_iter().take(if th { 10 } else { 1 })); b.extend(families::valued_few().into_iter().step_by(if th { 1 } else { 5 })); b };
    let key = bind::key0();
    let mut acc = Acc::new();
    // scheme-level self-check: a signature made with a private key verifies under the matching public key, over 1500 fixed digests per scheme
    let mut all_schemes: Vec<&'static str> = assignments.iter().flat_map(|a| a.iter().cloned()).collect(); all_schemes.sort(); all_schemes.dedup();
    if th { for s in ["ssh-ecdsa-p256", "ssh-dsa", "mldsa65"] { if !all_schemes.contains(&s) { all_schemes.push(s) } } }
    let sc: Vec<Acc> = all_schemes.par_iter().map(|scheme| {
        let mut acc = Acc::new();
        let id = identity("Z", scheme);
        let n = if scheme.starts_with("mldsa") || *scheme == "ssh-dsa" { 200 } else { 1500 };
        for i in 0..n {
            acc.inc("scheme_selfcheck_signatures");
            let msg = crate::refmodel::sha256::sha256(format!("selfcheck-{i}").as_bytes());
            match catch(|| id.sk.sign_with_options(&msg, id.opts.clone()).map(|s| id.pk.verify(&s, &msg))) {
                Ok(Ok(true)) => {}
                Ok(Ok(false)) => acc.viol(format!("C09|scheme-selfcheck|{scheme}|own-signature-does-not-verify"), format!("a fresh {scheme} signature does not verify under the matching public key"), format!("selfcheck/{scheme}/digest{i}"), json!({"scheme": scheme, "message_digest": hex::encode(msg)})),
                Ok(Err(e)) => acc.viol(format!("C09|scheme-selfcheck|{scheme}|sign-error"), format!("{e}"), format!("selfcheck/{scheme}/digest{i}"), json!({})),
                Err(p) => acc.viol(format!("C09|scheme-selfcheck|{scheme}|panic|{}", p.site), p.msg.clone(), format!("selfcheck/{scheme}/digest{i}"), json!({})),
            }
        }
        acc
    }).collect();
    for a in sc { acc = acc.merge(a) }
    for (ai, asg) in assignments.iter().enumerate() {
        let ids: Vec<Id> = ["A", "B", "C", "D"].iter().zip(asg.iter()).map(|(n, s)| identity(n, s)).collect();
        let nb = if ai == 0 { bases.len() } else { bases.len().min(if th { 18 } else { 6 }) };
        let a = (0..nb).into_par_iter().with_max_len(1).map(|bi| {
            let mut acc = Acc::new();
            let m = &bases[bi];
            let base = bind::build(m, 0);
            // signing is deterministic for every seeded scheme: a signer whose own signature over THIS subject digest does not verify
            // is a scheme-level failure (reported once by the self-check above), not an envelope-level one
            let sd = bind::dg(&base.subject());
            let own_ok: Vec<bool> = ids.iter().map(|id| id.scheme.starts_with("mldsa") || matches!(catch(|| id.sk.sign_with_options(&sd, id.opts.clone()).map(|s| id.pk.verify(&s, &sd))), Ok(Ok(true)))).collect();
            for signers in 0u32..8 {
                if (0..3).any(|i| signers >> i & 1 == 1 && !own_ok[i]) { acc.inc("combinations_skipped_signer_fails_scheme_selfcheck"); continue }
                for meta in [false, true] {
                    if meta && signers == 0 { continue }
                    let mut e = base.clone();
                    for i in 0..3 { if signers >> i & 1 == 1 { e = sign(&e, &ids[i], meta && i == 0) } }
                    let cid = |s: &str| format!("asg{ai}/base{bi}/signers{signers}/meta{}/{s}", meta as u8);
                    acc.inc("signed_envelopes");
                    acc.nontrivial(&(ai, bi, signers, meta));
                    // binding, checked with the raw keys and the MODEL's subject digest (not the implementation's own subject()): each plain
                    // signature object verifies over the digest of the envelope's subject
                    { let msd = crate::refmodel::ops::subject(m).digest();
                      if let Ok(objs) = catch(|| e.objects_for_predicate(known_values::SIGNED)) {
                        let sigs: Vec<bc_components::Signature> = objs.iter().filter_map(|o| o.extract_subject::<bc_components::Signature>().ok()).collect();
                        for i in 0..3 { if signers >> i & 1 == 1 && !(meta && i == 0) {
                            acc.inc("verification_checks");
                            if !sigs.iter().any(|sg| ids[i].pk.verify(sg, &msd)) { acc.viol("C09|binding|signature-not-over-the-subject-digest", format!("no signature object of signer {} verifies, with the raw key, over the digest of the envelope's subject as the specification defines it", ids[i].name), cid("binding"), json!({"envelope": hex::encode(e.to_cbor_data()), "model_subject_digest": hex::encode(msd)})) }
                        } }
                      } }
                    check_all(&mut acc, &e, &ids, signers, "plain", &|| cid("asis"), true);
                    // add_signatures / add_signatures_opt = folding add_signature (deterministic schemes only: compare by verdicts)
                    if !meta && signers != 0 {
                        let sk: Vec<&dyn Signer> = (0..3).filter(|i| signers >> i & 1 == 1).map(|i| &ids[i].sk as &dyn Signer).collect();
                        if ids.iter().take(3).all(|id| id.opts.is_none()) {
                            if let Ok(v) = catch(|| base.add_signatures(&sk)) { check_all(&mut acc, &v, &ids, signers, "add_signatures", &|| cid("add_signatures"), false) }
                        }
                        let with_opts: Vec<(&dyn Signer, Option<SigningOptions>, Option<SignatureMetadata>)> = (0..3).filter(|i| signers >> i & 1 == 1).map(|i| (&ids[i].sk as &dyn Signer, ids[i].opts.clone(), None)).collect();
                        if let Ok(v) = catch(|| base.add_signatures_opt(&with_opts)) { check_all(&mut acc, &v, &ids, signers, "add_signatures_opt", &|| cid("add_signatures_opt"), false) }
                    }
                    // later additions
                    check_all(&mut acc, &e.add_assertion("later", "added"), &ids, signers, "plain", &|| cid("later-assertion"), false);
                    // one key leaving TWO valid signatures (a plain one and one with metadata): thresholds count signers, not signatures
                    if signers & 1 == 1 && !meta { let twice = sign(&e, &ids[0], true); check_all(&mut acc, &twice, &ids, signers, "signed-twice-by-one-key", &|| cid("signed-twice"), true) }
                    // every obscuration pattern of the parts other than the signature assertions
                    let protected: HashSet<Digest> = e.assertions().iter().filter(|a| a.as_predicate().map(|p| bind::dg(&p)) == Some(M::Known(3).digest())).flat_map(|a| { let mut v = vec![a.digest().into_owned()]; if let Some(p) = a.as_predicate() { v.push(p.digest().into_owned()) } if let Some(o) = a.as_object() { v.extend(o.deep_digests()) } v }).collect();
                    let all: Vec<Digest> = { let mut v: Vec<Digest> = e.deep_digests().into_iter().filter(|d| !protected.contains(d) && *d != e.digest().into_owned()).collect(); v.sort(); v };
                    let k = all.len().min(6);
                    for mask in 1u32..(1u32 << k) {
                        let t: HashSet<Digest> = (0..k).filter(|i| mask >> i & 1 == 1).map(|i| all[i].clone()).collect();
                        for (kind, action) in super::c02::actions() {
                            if let Ok(v) = catch(|| e.elide_removing_set_with_action(&t, &action)) {
                                acc.inc("obscured_variants");
                                check_all(&mut acc, &v, &ids, signers, "obscured", &|| cid(&format!("mask{mask}/{kind:?}")), false);
                            }
                        }
                    }
                    // the 'signed' PREDICATE itself obscured (at every position it occurs, also inside a metadata wrapper): the assertion is still found
                    // by digest, its object is untouched and the subject digest is unchanged, so every signer still verifies
                    for (kind, action) in super::c02::actions() {
                        let t: HashSet<Digest> = [Digest::from_data(M::Known(3).digest())].into_iter().collect();
                        if let Ok(v) = catch(|| e.elide_removing_set_with_action(&t, &action)) { acc.inc("obscured_variants"); check_all(&mut acc, &v, &ids, signers, "signed-predicate-obscured", &|| cid(&format!("signed-predicate/{kind:?}")), false); }
                    }
                    // transplant: the signature assertions on a different subject must not verify
                    let mut tr = Envelope::new("a different subject");
                    for a in e.assertions() { if a.as_predicate().map(|p| bind::dg(&p)) == Some(M::Known(3).digest()) { tr = tr.add_assertion_envelope(a).unwrap() } }
                    check_all(&mut acc, &tr, &ids, 0, "transplanted", &|| cid("transplant"), false);
                    // sign()/verify() = wrap + sign
                    if signers.count_ones() == 1 && !meta {
                        let i = signers.trailing_zeros() as usize;
                        let wd = bind::dg(&base.wrap_envelope());
                        if !(ids[i].scheme.starts_with("mldsa") || matches!(catch(|| ids[i].sk.sign_with_options(&wd, ids[i].opts.clone()).map(|s| ids[i].pk.verify(&s, &wd))), Ok(Ok(true)))) { acc.inc("combinations_skipped_signer_fails_scheme_selfcheck"); continue }
                        let s = base.sign_opt(&ids[i].sk, ids[i].opts.clone());
                        for (k, id) in ids.iter().enumerate() {
                            acc.inc("verification_checks");
                            match catch(|| s.verify(&id.pk)) {
                                Ok(Ok(r)) => if k != i { acc.viol("C09|verify|plain|expected-false-got-true", "verify() accepted another key", cid("sign-verify"), json!({})) } else if !r.is_identical_to(&base) { acc.viol("C09|verify|plain|returns-other", "verify() returned something else than the signed envelope", cid("sign-verify"), json!({})) },
                                Ok(Err(_)) => if k == i { acc.viol("C09|verify|plain|expected-true-got-false", "verify() rejected the signer's key", cid("sign-verify"), json!({"scheme": id.scheme})) },
                                Err(p) => acc.viol(format!("C09|verify|panic|{}", p.loc), p.msg.clone(), cid("sign-verify"), json!({})),
                            }
                        }
                    }
                    // adversarial 'signed' assertions added next to the valid ones
                    if !meta {
                        let subject_digest = bind::dg(&e.subject());
                        let foreign_sig: Signature = ids[3].sk.sign_with_options(&[0x55u8; 32], ids[3].opts.clone()).unwrap();
                        let mut adv: Vec<(&str, Envelope, u32)> = vec![
                            ("adv-foreign-signature", Envelope::new_assertion(known_values::SIGNED, foreign_sig.clone()), signers),
                            ("adv-text-object", Envelope::new_assertion(known_values::SIGNED, "not a signature"), signers),
                            ("adv-known-value-object", Envelope::new_assertion(known_values::SIGNED, known_values::NOTE), signers),
                            ("adv-elided-object", Envelope::new_assertion(known_values::SIGNED, Envelope::new(foreign_sig.clone()).elide()), signers),
                            ("adv-wrapped-nonsignature", Envelope::new_assertion(known_values::SIGNED, Envelope::new("x").wrap_envelope()), signers),
                        ];
                        if signers & 1 == 1 {
                            // the adversary re-uses A's public, valid signature over this subject inside a metadata wrapper of its own making
                            let a_sig: Signature = ids[0].sk.sign_with_options(&subject_digest, ids[0].opts.clone()).unwrap();
                            let forged = Envelope::new(a_sig.clone()).add_assertion(known_values::NOTE, "forged metadata").wrap_envelope();
                            adv.push(("adv-metadata-no-outer-signature", Envelope::new_assertion(known_values::SIGNED, forged.clone()), signers));
                            let d_outer: Signature = ids[3].sk.sign_with_options(&bind::dg(&forged), ids[3].opts.clone()).unwrap();
                            adv.push(("adv-metadata-foreign-outer-signature", Envelope::new_assertion(known_values::SIGNED, forged.add_assertion(known_values::SIGNED, d_outer.clone())), signers));
                            adv.push(("adv-metadata-two-outer-signatures", Envelope::new_assertion(known_values::SIGNED, forged.add_assertion(known_values::SIGNED, d_outer).add_assertion(known_values::SIGNED, foreign_sig.clone())), signers));
                        }
                        for (class, a, exp) in adv {
                            acc.inc("adversarial_envelopes");
                            if let Ok(v) = e.add_assertion_envelope(a.clone()) { check_all(&mut acc, &v, &ids, exp, class, &|| cid(class), false) }
                            // and with the genuine plain signature of A removed, so that only the adversarial one can answer for A
                            if class.starts_with("adv-metadata") && signers == 1 {
                                let only = base.add_assertion_envelope(a).unwrap();
                                // A's inner signature is genuine, so has_signature_from(A) may be true; the metadata clause is what is checked
                                check_all_dc(&mut acc, &only, &ids, 1, 1, class, &|| cid(&format!("{class}/alone")), false);
                            }
                        }
                        // decorated 'signed' assertion (make_signed_assertion with a note): panics are C16's, verdicts are compared
                        if signers & 2 == 2 {
                            let b_sig: Signature = ids[1].sk.sign_with_options(&subject_digest, ids[1].opts.clone()).unwrap();
                            if let Ok(Ok(v)) = catch(|| base.add_assertion_envelope(base.make_signed_assertion(&b_sig, Some("a note")))) { check_all(&mut acc, &v, &ids, 2, "decorated-signed", &|| cid("decorated-signed"), false) }
                        }
                    }
                }
            }
            if bi == (ctx.seed as usize % 7) { acc.sample(json!({"base": m.show(), "schemes": asg, "signer_subsets": 8, "key_lists": "all lists of length 1..3 over {A,B,C,D} x thresholds None,1..len+1"})) }
            acc
        }).reduce(Acc::new, Acc::merge);
        acc = acc.merge(a);
    }
    let evals = acc.get("verification_checks") + acc.get("threshold_checks");
    let cov = json!({"evaluations": evals,
        "rule": "base tree x signer subset of {A,B,C} x scheme assignment x {as is, later assertion, every obscuration pattern of non-signature parts x 3 actions, transplanted, adversarial 'signed' assertions} x every key of {A,B,C,D} through has_signature_from / verify_signature_from / returning_metadata, every key list (<=3, with repetition) x every threshold; distinct = (assignment, base, signer subset, metadata)",
        "exhaustive": true, "bounds": {"base_tree_weight": if th { 4 } else { 3 }, "scheme_assignments": assignments, "obscured_elements_max": 6}});
    let _ = key;
    finish(ctx, acc, "exploration", cov, vec!["'verifies' = Ok(true) / Ok(envelope); Ok(false) and Err both count as 'does not verify'".into(),
        "ML-DSA keys cannot be seeded in bc-components 0.19; verdicts do not depend on key values".into(), "'no other key' = no other key of the finite key set".into()])
}
