//! C15 - traversal and queries agree with structure (DESIGN section 4, C15).
use crate::bind::{self, O};
use crate::families;
use crate::refmodel::tree::{Kind, M, D};
use crate::report::{Acc, Ctx, catch, finish};
use bc_envelope::prelude::*;
use bc_envelope::EnvelopeError;
use rayon::prelude::*;
use serde_json::json;
use std::cell::RefCell;
use std::collections::{HashSet, BTreeMap};

type Path = Vec<(u8, D)>; // (edge kind, digest) from the root
fn edge_code(e: EdgeType) -> u8 { match e { EdgeType::None => 0, EdgeType::Subject => 1, EdgeType::Assertion => 2, EdgeType::Predicate => 3, EdgeType::Object => 4, EdgeType::Wrapped => 5 } }
fn edge_of(name: &str) -> u8 { match name { "subj" => 1, "assert" => 2, "pred" => 3, "obj" => 4, "wrapped" => 5, _ => 0 } }
/// reference structure walk: every element position with its path (path length - 1 = depth)
fn ref_structure(o: &O, edge: u8, prefix: &Path, out: &mut Vec<Path>) {
    let mut me = prefix.clone(); me.push((edge, o.digest())); out.push(me.clone());
    for (n, c) in o.children() { ref_structure(c, edge_of(n), &me, out) }
}
/// reference tree walk per the documented view: nodes hidden, a node is replaced by its subject, its assertions hang under that subject
/// returns (visits as (digest, level, parent-chain digests), ) ; `strict_parent` false when a node-subject-of-node makes the parent of outer assertions unspecified
fn ref_tree(o: &O, level: usize, parent: &Vec<D>, out: &mut Vec<(D, usize, Vec<D>)>) -> Vec<D> {
    match o {
        O::Node(_, s, a) => {
            let ap = ref_tree(s, level, parent, out);
            let ap = if matches!(**s, O::Node(..)) { parent.clone() } else { ap };
            for x in a { ref_tree(x, level + 1, &ap, out); }
            parent.clone()
        }
        _ => {
            out.push((o.digest(), level, parent.clone()));
            let mut me = parent.clone(); me.push(o.digest());
            for (_, c) in o.children() { ref_tree(c, level + 1, &me, out); }
            me
        }
    }
}
fn shape_class(o: &O) -> &'static str {
    fn has(o: &O, f: &dyn Fn(&O) -> bool) -> bool { f(o) || o.children().iter().any(|(_, c)| has(c, f)) }
    if has(o, &|x| matches!(x, O::Node(_, s, _) if matches!(**s, O::Node(..)))) { "node-subject-node" }
    else if has(o, &|x| matches!(x, O::Obscured(..))) { "obscured" }
    else if has(o, &|x| matches!(x, O::Node(_, _, a) if a.iter().any(|y| matches!(y, O::Node(..))))) { "decorated-assertion" }
    else if has(o, &|x| matches!(x, O::Wrapped(..))) { "wrapped" } else { "plain" }
}
fn subj(o: &O) -> &O { if let O::Node(_, s, _) = o { s } else { o } }

pub fn check_envelope(acc: &mut Acc, e: &Envelope, cid: &dyn Fn() -> String) {
    let o = bind::observe(e);
    let sc = shape_class(&o);
    let det = || json!({"envelope": hex::encode(e.to_cbor_data()), "notation": crate::report::ff(&e)});
    // --- structure walk
    acc.inc("walks");
    let visits: RefCell<Vec<(D, usize, u8, Option<usize>)>> = RefCell::new(vec![]);
    let r = catch(|| e.walk(false, &|env: Envelope, level: usize, edge: EdgeType, parent: Option<usize>| -> Option<usize> { let mut v = visits.borrow_mut(); v.push((bind::dg(&env), level, edge_code(edge), parent)); Some(v.len() - 1) }));
    if let Err(p) = r { acc.viol(format!("C15|walk-structure|panic|{}", p.loc), p.msg.clone(), cid(), det()); return }
    let visits = visits.into_inner();
    let mut got: Vec<Path> = vec![]; let mut ok = true;
    let mut paths: Vec<Path> = Vec::with_capacity(visits.len());
    for (i, (d, level, edge, parent)) in visits.iter().enumerate() {
        let mut p: Path = match parent { Some(pi) if *pi < i => paths[*pi].clone(), Some(_) => { ok = false; vec![] } None => vec![] };
        p.push((*edge, *d));
        if p.len() != level + 1 { ok = false }
        paths.push(p.clone()); got.push(p);
    }
    let mut want: Vec<Path> = vec![]; ref_structure(&o, 0, &vec![], &mut want);
    got.sort(); want.sort();
    if !ok || got != want { acc.viol(format!("C15|walk-structure|{sc}"), "structure walk does not visit each element exactly once with the right depth, edge kind and parent context", cid(), det()) }
    // --- tree walk
    acc.inc("walks");
    let tv: RefCell<Vec<(D, usize, Option<usize>)>> = RefCell::new(vec![]);
    let r = catch(|| e.walk(true, &|env: Envelope, level: usize, _edge: EdgeType, parent: Option<usize>| -> Option<usize> { let mut v = tv.borrow_mut(); v.push((bind::dg(&env), level, parent)); Some(v.len() - 1) }));
    if let Err(p) = r { acc.viol(format!("C15|walk-tree|panic|{}", p.loc), p.msg.clone(), cid(), det()); return }
    let tv = tv.into_inner();
    let mut chains: Vec<Vec<D>> = vec![]; let mut okt = true;
    let mut gott: Vec<(D, usize, Vec<D>)> = vec![];
    for (i, (d, level, parent)) in tv.iter().enumerate() {
        let chain: Vec<D> = match parent { Some(pi) if *pi < i => { let mut c = chains[*pi].clone(); c.push(tv[*pi].0); c } Some(_) => { okt = false; vec![] } None => vec![] };
        chains.push(chain.clone()); gott.push((*d, *level, chain));
    }
    let mut wantt = vec![]; ref_tree(&o, 0, &vec![], &mut wantt);
    if sc == "node-subject-node" { // parent of the outer assertions is not specified by the documented view: compare (digest, level) only
        let mut a: Vec<(D, usize)> = gott.iter().map(|x| (x.0, x.1)).collect(); let mut b: Vec<(D, usize)> = wantt.iter().map(|x| (x.0, x.1)).collect(); a.sort(); b.sort();
        if !okt || a != b { acc.viol(format!("C15|walk-tree|{sc}"), "tree walk visits differ (digest, level)", cid(), det()) }
    } else {
        gott.sort(); wantt.sort();
        if !okt || gott != wantt { acc.viol(format!("C15|walk-tree|{sc}"), "tree walk does not visit exactly the non-node elements with the documented levels and parents", cid(), det()) }
    }
    // --- counts and digest sets
    acc.inc("queries");
    if catch(|| e.elements_count()).ok() != Some(want.len()) { acc.viol(format!("C15|elements_count|{sc}"), "elements_count differs from the number of elements", cid(), det()) }
    let maxdepth = want.iter().map(|p| p.len()).max().unwrap_or(1);
    for l in 0..=maxdepth + 1 {
        acc.inc("queries");
        let mut exp: HashSet<D> = HashSet::new();
        fn rec(o: &O, depth: usize, l: usize, exp: &mut HashSet<D>) { if depth < l { exp.insert(o.digest()); exp.insert(subj(o).digest()); } for (_, c) in o.children() { rec(c, depth + 1, l, exp) } }
        rec(&o, 0, l, &mut exp);
        match catch(|| e.digests(l)) { Ok(g) => { let g: HashSet<D> = g.iter().map(|d| *d.data()).collect(); if g != exp { acc.viol(format!("C15|digests|{sc}"), format!("digests({l}) differs from the documented set"), cid(), det()) } } Err(p) => acc.viol(format!("C15|digests|panic|{}", p.loc), p.msg.clone(), cid(), det()) }
    }
    { let mut all = HashSet::new(); fn rec(o: &O, s: &mut HashSet<D>) { s.insert(o.digest()); for (_, c) in o.children() { rec(c, s) } } rec(&o, &mut all);
      if catch(|| e.deep_digests()).ok().map(|g| g.iter().map(|d| *d.data()).collect::<HashSet<D>>()) != Some(all) { acc.viol(format!("C15|deep_digests|{sc}"), "deep_digests differs from the set of all element digests", cid(), det()) }
      let mut sh = HashSet::new(); fn rec2(o: &O, depth: usize, s: &mut HashSet<D>) { if depth < 2 { s.insert(o.digest()); s.insert(subj(o).digest()); } for (_, c) in o.children() { rec2(c, depth + 1, s) } } rec2(&o, 0, &mut sh);
      if catch(|| e.shallow_digests()).ok().map(|g| g.iter().map(|d| *d.data()).collect::<HashSet<D>>()) != Some(sh) { acc.viol(format!("C15|shallow_digests|{sc}"), "shallow_digests differs from digests(2)", cid(), det()) } }
    // --- accessors against the case
    acc.inc("queries");
    let so = subj(&o);
    let acc_ok = catch(|| {
        let mut bad = vec![];
        if bind::observe(&e.subject()) != *so { bad.push("subject") }
        let asr: Vec<O> = e.assertions().iter().map(bind::observe).collect();
        let want_a: Vec<O> = if let O::Node(_, _, a) = &o { a.clone() } else { vec![] };
        if asr != want_a { bad.push("assertions") }
        if e.has_assertions() != !want_a.is_empty() { bad.push("has_assertions") }
        if e.is_node() != matches!(o, O::Node(..)) { bad.push("is_node") }
        if e.is_leaf() != matches!(o, O::Leaf(..)) { bad.push("is_leaf") }
        if e.is_wrapped() != matches!(o, O::Wrapped(..)) { bad.push("is_wrapped") }
        if e.is_known_value() != matches!(o, O::Known(..)) { bad.push("is_known_value") }
        if e.is_assertion() != matches!(o, O::Assertion(..)) { bad.push("is_assertion") }
        if e.is_elided() != matches!(o, O::Obscured(Kind::Elided, _)) { bad.push("is_elided") }
        if e.is_encrypted() != matches!(o, O::Obscured(Kind::Encrypted, _)) { bad.push("is_encrypted") }
        if e.is_compressed() != matches!(o, O::Obscured(Kind::Compressed, _)) { bad.push("is_compressed") }
        if e.is_obscured() != matches!(o, O::Obscured(..)) { bad.push("is_obscured") }
        if e.is_subject_assertion() != matches!(innermost_subject(&o), O::Assertion(..)) { bad.push("is_subject_assertion") }
        if e.is_subject_obscured() != matches!(innermost_subject(&o), O::Obscured(..)) { bad.push("is_subject_obscured") }
        // as_* look at the subject (documented contract)
        match (e.as_leaf(), &o) { (Some(c), O::Leaf(_, b)) => if c.to_cbor_data() != *b { bad.push("as_leaf") }, (None, O::Leaf(..)) => bad.push("as_leaf"), (Some(_), _) => bad.push("as_leaf"), _ => {} }
        match (e.as_known_value(), &o) { (Some(k), O::Known(_, n)) => if k.value() != *n { bad.push("as_known_value") }, (None, O::Known(..)) => bad.push("as_known_value"), (Some(_), _) => bad.push("as_known_value"), _ => {} }
        match (e.as_predicate(), e.as_object(), &o) { (Some(p), Some(ob), O::Assertion(_, wp, wo)) => if bind::observe(&p) != **wp || bind::observe(&ob) != **wo { bad.push("as_predicate/as_object") }, (None, None, O::Assertion(..)) => bad.push("as_predicate/as_object"), (Some(_), _, x) | (_, Some(_), x) if !matches!(x, O::Assertion(..)) => bad.push("as_predicate/as_object"), _ => {} }
        bad
    });
    match acc_ok { Ok(bad) => for b in bad { acc.viol(format!("C15|accessor:{b}|{sc}"), format!("{b} disagrees with the envelope's case"), cid(), det()) }, Err(p) => acc.viol(format!("C15|accessor|panic|{}", p.loc), p.msg.clone(), cid(), det()) }
    // --- predicate lookups (by digest, hence also through an elided predicate)
    if let O::Node(_, _, a) = &o {
        let mut by_pred: BTreeMap<D, Vec<O>> = BTreeMap::new();
        let mut pred_env: BTreeMap<D, Envelope> = BTreeMap::new();
        for (x, xe) in a.iter().zip(e.assertions()) { if let O::Assertion(_, p, _) = innermost_subject(x) { by_pred.entry(p.digest()).or_default().push(x.clone()); if let Some(pe) = xe.subject().as_predicate() { pred_env.insert(p.digest(), pe); } } }
        let mut probes: Vec<(String, Envelope, D)> = pred_env.iter().flat_map(|(d, pe)| vec![("present".to_string(), pe.clone(), *d), ("present-elided".to_string(), pe.elide(), *d)]).collect();
        probes.push(("absent-text".into(), Envelope::new("no-such-predicate"), crate::refmodel::tree::leaf_text("no-such-predicate").digest()));
        probes.push(("absent-known".into(), Envelope::new(KnownValue::new(9999)), M::Known(9999).digest()));
        for (pn, pe, pd) in probes {
            acc.inc("predicate_lookups");
            let want_set: Vec<O> = by_pred.get(&pd).cloned().unwrap_or_default();
            let cid2 = || format!("{}/lookup-{pn}-{}", cid(), hex::encode(&pd[..3]));
            match catch(|| e.assertions_with_predicate(pe.clone())) {
                Ok(g) => { let mut g: Vec<O> = g.iter().map(bind::observe).collect(); let mut w = want_set.clone(); g.sort_by_key(|x| x.digest()); w.sort_by_key(|x| x.digest()); if g != w { acc.viol(format!("C15|assertions_with_predicate|{pn}|{sc}"), "lookup does not return exactly the assertions whose predicate digest matches", cid2(), det()) } else if !w.is_empty() { acc.nontrivial(&(hex::encode(o.digest()), pd)) } }
                Err(p) => acc.viol(format!("C15|assertions_with_predicate|panic|{}", p.loc), p.msg.clone(), cid2(), det()),
            }
            match catch(|| e.assertion_with_predicate(pe.clone())) {
                Ok(Ok(g)) => if want_set.len() != 1 || bind::observe(&g) != want_set[0] { acc.viol(format!("C15|assertion_with_predicate|{pn}|{sc}|wrong-result"), format!("returned an assertion although {} match", want_set.len()), cid2(), det()) },
                Ok(Err(er)) => { let kind = er.downcast_ref::<EnvelopeError>(); let okk = match want_set.len() { 0 => matches!(kind, Some(EnvelopeError::NonexistentPredicate)), 1 => false, _ => matches!(kind, Some(EnvelopeError::AmbiguousPredicate)) }; if !okk { acc.viol(format!("C15|assertion_with_predicate|{pn}|{sc}|wrong-error"), format!("{} matches reported as '{er}'", want_set.len()), cid2(), det()) } }
                Err(p) => acc.viol(format!("C15|assertion_with_predicate|panic|{}", p.loc), p.msg.clone(), cid2(), det()),
            }
            // object forms: decorated matches make the current code panic (reported under C16); compare when it returns
            match catch(|| e.object_for_predicate(pe.clone())) {
                Ok(Ok(g)) => { let w: Option<&O> = if want_set.len() == 1 { if let O::Assertion(_, _, ob) = innermost_subject(&want_set[0]) { Some(&**ob) } else { None } } else { None }; if w != Some(&bind::observe(&g)) { acc.viol(format!("C15|object_for_predicate|{pn}|{sc}|wrong-result"), "returned an object that is not the object of the single matching assertion", cid2(), det()) } }
                Ok(Err(_)) => if want_set.len() == 1 { acc.viol(format!("C15|object_for_predicate|{pn}|{sc}|refused"), "single match refused", cid2(), det()) },
                Err(_) => acc.inc("panics_counted_under_C16"),
            }
            // optional form: the object iff exactly one match (decorated matches included), None iff none, an error iff several
            match catch(|| e.optional_object_for_predicate(pe.clone())) {
                Ok(Ok(Some(g))) => { let w: Option<D> = if want_set.len() == 1 { if let O::Assertion(_, _, ob) = innermost_subject(&want_set[0]) { Some(ob.digest()) } else { None } } else { None }; if w != Some(bind::dg(&g)) { acc.viol(format!("C15|optional_object_for_predicate|{pn}|{sc}|wrong-result"), "returned an object although the matches do not determine it", cid2(), det()) } }
                Ok(Ok(None)) => if !want_set.is_empty() { acc.viol(format!("C15|optional_object_for_predicate|{pn}|{sc}|reports-none-for-a-present-predicate"), format!("{} assertion(s) match but the lookup reports none", want_set.len()), cid2(), det()) },
                Ok(Err(_)) => if want_set.len() <= 1 { acc.viol(format!("C15|optional_object_for_predicate|{pn}|{sc}|refused"), format!("{} match(es) reported as an error", want_set.len()), cid2(), det()) },
                Err(_) => acc.inc("panics_counted_under_C16"),
            }
            match catch(|| e.objects_for_predicate(pe.clone())) {
                Ok(g) => { let mut g: Vec<D> = g.iter().map(bind::dg).collect(); let mut w: Vec<D> = want_set.iter().filter_map(|x| if let O::Assertion(_, _, ob) = innermost_subject(x) { Some(ob.digest()) } else { None }).collect(); g.sort(); w.sort(); if g != w { acc.viol(format!("C15|objects_for_predicate|{pn}|{sc}"), "objects differ", cid2(), det()) } }
                Err(_) => acc.inc("panics_counted_under_C16"),
            }
        }
    }
}
fn innermost_subject(o: &O) -> &O { match o { O::Node(_, s, _) => innermost_subject(s), _ => o } }

/// typed extraction: the stored value or an error, never another value
fn extraction(acc: &mut Acc) {
    let ints: Vec<i128> = vec![0, 1, 23, 24, 127, 128, 255, 256, 32767, 32768, 65535, 65536, 2147483647, 2147483648, 4294967295, 4294967296, i64::MAX as i128, i64::MAX as i128 + 1, u64::MAX as i128, -1, -24, -25, -128, -129, -256, -257, -32768, -32769, -65537, -2147483648, -2147483649, i64::MIN as i128, i64::MIN as i128 - 1, -(u64::MAX as i128) - 1];
    macro_rules! chk { ($t:ty, $e:expr, $n:expr) => {{
        acc.inc("extractions");
        let cid = format!("extract/{}/as-{}", $n, stringify!($t));
        match catch(|| $e.extract_subject::<$t>()) {
            Err(p) => acc.viol(format!("C15|extract|panic|{}", p.loc), p.msg.clone(), cid, json!({})),
            Ok(Ok(v)) => { if (v as i128) != $n { acc.viol(format!("C15|extract|integer-as-{}|other-value|{}", stringify!($t), if $n < 0 { "negative" } else { "nonnegative" }), format!("integer leaf {} extracted as {} gave {}", $n, stringify!($t), v), cid, json!({"stored": $n.to_string(), "got": v.to_string()})) } else { acc.inc("extractions_exact") } }
            Ok(Err(_)) => { if $n >= (<$t>::MIN as i128) && $n <= (<$t>::MAX as i128) { acc.viol(format!("C15|extract|integer-as-{}|refused-representable", stringify!($t)), format!("{} is representable but extraction failed", $n), cid, json!({})) } }
        }
    }}}
    for &n in &ints {
        let cbor: CBOR = if n >= 0 { CBOR::from(n as u64) } else { CBORCase::Negative((-1 - n) as u64).into() };
        let e = Envelope::new(cbor);
        chk!(u8, e, n); chk!(u16, e, n); chk!(u32, e, n); chk!(u64, e, n); chk!(usize, e, n);
        chk!(i8, e, n); chk!(i16, e, n); chk!(i32, e, n); chk!(i64, e, n);
        for (tn, r) in [("f64", catch(|| e.extract_subject::<f64>().map(|v| v)).map(|r| r.ok())), ("f32", catch(|| e.extract_subject::<f32>().map(|v| v as f64)).map(|r| r.ok()))] {
            acc.inc("extractions");
            match r { Err(p) => acc.viol(format!("C15|extract|panic|{}", p.loc), p.msg.clone(), format!("extract/{n}/as-{tn}"), json!({})),
                Ok(Some(v)) => { let nearest = if tn == "f32" { (n as f32) as f64 } else { n as f64 }; if v != nearest { acc.viol(format!("C15|extract|integer-as-{tn}|other-value|{}", if n < 0 { "negative" } else { "nonnegative" }), format!("integer leaf {n} extracted as {tn} gave {v} (nearest representable is {nearest})"), format!("extract/{n}/as-{tn}"), json!({})) } }
                Ok(None) => {} }
        }
        for (tn, r) in [("String", catch(|| e.extract_subject::<String>().is_ok())), ("bool", catch(|| e.extract_subject::<bool>().is_ok())), ("ByteString", catch(|| e.extract_subject::<dcbor::ByteString>().is_ok())), ("Digest", catch(|| e.extract_subject::<Digest>().is_ok())), ("KnownValue", catch(|| e.extract_subject::<KnownValue>().is_ok())), ("Date", catch(|| e.extract_subject::<dcbor::Date>().is_ok()))] {
            acc.inc("extractions");
            match r { Err(p) => acc.viol(format!("C15|extract|panic|{}", p.loc), p.msg.clone(), format!("extract/{n}/as-{tn}"), json!({})), Ok(true) => acc.viol(format!("C15|extract|integer-as-{tn}|accepted"), "an integer leaf was extracted as an unrelated type", format!("extract/{n}/as-{tn}"), json!({})), Ok(false) => {} }
        }
    }
    for f in [1.5f64, 0.5, -0.5, 1e300, f64::NAN, f64::INFINITY, 3e19, -3e19, 0.1] {
        let e = Envelope::new(f);
        macro_rules! fchk { ($t:ty) => {{ acc.inc("extractions"); match catch(|| e.extract_subject::<$t>()) { Err(p) => acc.viol(format!("C15|extract|panic|{}", p.loc), p.msg.clone(), format!("extract/{f}/as-{}", stringify!($t)), json!({})), Ok(Ok(v)) => acc.viol(format!("C15|extract|float-as-{}|other-value", stringify!($t)), format!("non-integral float {f} extracted as {} gave {v}", stringify!($t)), format!("extract/{f}/as-{}", stringify!($t)), json!({})), Ok(Err(_)) => {} } }}}
        fchk!(u8); fchk!(i32); fchk!(i64); fchk!(u64);
        acc.inc("extractions");
        match catch(|| e.extract_subject::<f64>()) { Ok(Ok(v)) => if !(v == f || (v.is_nan() && f.is_nan())) { acc.viol("C15|extract|float-as-f64|other-value", format!("{f} came back as {v}"), format!("extract/{f}/as-f64"), json!({})) }, Ok(Err(_)) => acc.viol("C15|extract|float-as-f64|refused", format!("{f} refused"), format!("extract/{f}/as-f64"), json!({})), Err(p) => acc.viol(format!("C15|extract|panic|{}", p.loc), p.msg.clone(), format!("extract/{f}/as-f64"), json!({})) }
        match catch(|| e.extract_subject::<f32>()) { Ok(Ok(v)) => if !((v as f64) == f || (v.is_nan() && f.is_nan()) || ((f as f32) == v)) { acc.viol("C15|extract|float-as-f32|other-value", format!("{f} came back as {v}"), format!("extract/{f}/as-f32"), json!({})) }, _ => {} }
    }
    // values created from type T come back as T
    acc.inc("extractions");
    let rt = catch(|| {
        let mut bad = vec![];
        if Envelope::new("héllo").extract_subject::<String>().ok().as_deref() != Some("héllo") { bad.push("String") }
        if Envelope::new(true).extract_subject::<bool>().ok() != Some(true) { bad.push("bool") }
        if Envelope::new(-5i64).extract_subject::<i64>().ok() != Some(-5) { bad.push("i64") }
        if Envelope::new(u64::MAX).extract_subject::<u64>().ok() != Some(u64::MAX) { bad.push("u64") }
        if Envelope::new(1.5f64).extract_subject::<f64>().ok() != Some(1.5) { bad.push("f64") }
        let d = Digest::from_data([3u8; 32]); if Envelope::new(d.clone()).extract_subject::<Digest>().ok() != Some(d) { bad.push("Digest") }
        let dt = dcbor::Date::from_timestamp(1720091471.0); if Envelope::new(dt.clone()).extract_subject::<dcbor::Date>().ok() != Some(dt) { bad.push("Date") }
        if Envelope::new(known_values::NOTE).extract_subject::<KnownValue>().ok() != Some(known_values::NOTE) { bad.push("KnownValue") }
        let bs = dcbor::ByteString::from(vec![1u8, 2, 3]); if Envelope::new(bs.clone()).extract_subject::<dcbor::ByteString>().ok() != Some(bs) { bad.push("ByteString") }
        if Envelope::new(vec![1u32, 2, 3]).extract_subject::<Vec<u32>>().ok() != Some(vec![1, 2, 3]) { bad.push("Vec<u32>") }
        bad
    });
    match rt { Ok(b) => for x in b { acc.viol(format!("C15|extract|roundtrip-{x}"), "a value created from T does not come back as T", format!("extract/roundtrip/{x}"), json!({})) }, Err(p) => acc.viol(format!("C15|extract|panic|{}", p.loc), p.msg.clone(), "extract/roundtrip", json!({})) }
    // typed extraction of objects through a predicate: the stored value or an error, never another value (not None, not the caller's default)
    {
        let e = Envelope::new("s").add_assertion("name", "Alice").add_assertion("n", 5).add_assertion("hidden", Envelope::new("x").elide());
        let bad = catch(|| {
            let mut bad: Vec<&'static str> = vec![];
            if e.extract_object_for_predicate::<String>("name").ok().as_deref() != Some("Alice") { bad.push("extract_object_for_predicate:stored-value") }
            if e.extract_object_for_predicate::<i32>("name").is_ok() { bad.push("extract_object_for_predicate:wrong-type-accepted") }
            if e.extract_object_for_predicate::<i32>("n").ok() != Some(5) { bad.push("extract_object_for_predicate:int") }
            if e.extract_optional_object_for_predicate::<String>("name").ok() != Some(Some("Alice".to_string())) { bad.push("extract_optional_object_for_predicate:stored-value") }
            if e.extract_optional_object_for_predicate::<String>("absent").ok() != Some(None) { bad.push("extract_optional_object_for_predicate:absent") }
            if e.extract_optional_object_for_predicate::<i32>("name").is_ok() { bad.push("extract_optional_object_for_predicate:wrong-type-gives-a-value") }
            if e.extract_optional_object_for_predicate::<String>("hidden").is_ok() { bad.push("extract_optional_object_for_predicate:elided-object-gives-a-value") }
            if e.extract_object_for_predicate_with_default::<i32>("absent", 7).ok() != Some(7) { bad.push("extract_object_for_predicate_with_default:absent") }
            if e.extract_object_for_predicate_with_default::<i32>("n", 7).ok() != Some(5) { bad.push("extract_object_for_predicate_with_default:stored-value") }
            if e.extract_object_for_predicate_with_default::<i32>("name", 7).is_ok() { bad.push("extract_object_for_predicate_with_default:wrong-type-gives-the-default") }
            if e.extract_objects_for_predicate::<String>("name").ok() != Some(vec!["Alice".to_string()]) { bad.push("extract_objects_for_predicate:stored-value") }
            if e.extract_objects_for_predicate::<i32>("name").is_ok() { bad.push("extract_objects_for_predicate:wrong-type-accepted") }
            if e.try_object_for_predicate::<String>("name").ok().as_deref() != Some("Alice") { bad.push("try_object_for_predicate:stored-value") }
            if e.try_optional_object_for_predicate::<i32>("name").is_ok() { bad.push("try_optional_object_for_predicate:wrong-type-gives-a-value") }
            bad
        });
        acc.add("extractions", 14);
        match bad { Ok(b) => for x in b { acc.viol(format!("C15|extract|{x}"), "typed extraction through a predicate returned something else than the stored value or an error", format!("extract/by-predicate/{x}"), json!({"envelope": crate::report::ff(&e)})) }, Err(p) => acc.viol(format!("C15|extract|panic|{}", p.site), p.msg.clone(), "extract/by-predicate", json!({})) }
    }
    // collection types on a non-collection leaf
    let e = Envelope::new("text");
    for (nm, r) in [("Vec<u32>", catch(|| e.extract_subject::<Vec<u32>>().is_ok())), ("HashMap", catch(|| e.extract_subject::<std::collections::HashMap<String, u32>>().is_ok())), ("HashSet", catch(|| e.extract_subject::<HashSet<u32>>().is_ok()))] {
        acc.inc("extractions");
        match r { Err(p) => acc.viol(format!("C15|extract|panic|{}", p.site), format!("text leaf as {nm} panicked at {}: {}", p.loc, p.msg), format!("extract/text/as-{nm}"), json!({})), Ok(true) => acc.viol(format!("C15|extract|text-as-{nm}|accepted"), "accepted", format!("extract/text/as-{nm}"), json!({})), Ok(false) => {} }
    }
}

pub fn run(ctx: &Ctx) -> i32 {
    let th = ctx.tier.thorough();
    let w = if th { 9 } else { 8 };
    let wo = if th { 7 } else { 6 }; // obscuration patterns on trees up to this weight
    let mut trees = families::plain(w);
    let nb = trees.len();
    trees.extend(families::decode_only()); trees.extend(families::nsn()); trees.extend(families::valued());
    let acc = trees.par_iter().enumerate().with_max_len(1).map(|(ti, m)| {
        let mut acc = Acc::new();
        acc.inc("trees");
        let e = if ti < nb { bind::build(m, 0) } else { bind::build_route(m, bind::Route::Decode) };
        check_envelope(&mut acc, &e, &|| format!("tree{ti}"));
        acc.nontrivial(&("t", ti));
        if m.weight() <= wo {
            let ds = m.distinct_digests(); let k = ds.len();
            for mask in 1u32..(1u32 << k) {
                let t = bind::dset(&(0..k).filter(|i| mask >> i & 1 == 1).map(|i| ds[i]).collect::<Vec<_>>());
                for (kind, action) in super::c02::actions() {
                    if let Ok(r) = catch(|| e.elide_removing_set_with_action(&t, &action)) { acc.inc("obscured_variants"); check_envelope(&mut acc, &r, &|| format!("tree{ti}/mask{mask}/{kind:?}")); acc.nontrivial(&("o", ti, mask, kind)); }
                }
            }
        }
        if ti % 151 == (ctx.seed as usize % 151) { acc.sample(json!({"tree": m.show(), "checks": "structure walk, tree walk, elements_count, digests(l) for every l, accessors, predicate lookups (present / through elided predicate / absent)"})) }
        acc
    }).reduce(Acc::new, Acc::merge);
    let mut acc = acc;
    for (wn, m) in families::wide_all(th) { if let Ok(e) = catch(|| bind::build(&m, 0)) { acc.inc("wide_shapes"); check_envelope(&mut acc, &e, &|| format!("wide/{wn}")) } }
    // assertions that carry their own assertions (salted / annotated), also next to a plain one with the same predicate
    {
        let salt = crate::explore::fixed_salt();
        let dec = Envelope::new_assertion("knows", "Bob").add_salt_instance(salt.clone());
        let ann = Envelope::new_assertion("email", "a@b").add_assertion("verified", true);
        for (i, e) in [Envelope::new("Alice").add_assertion_envelope(dec.clone()).unwrap(), Envelope::new("Alice").add_assertion_envelope(dec.clone()).unwrap().add_assertion_envelope(ann.clone()).unwrap().add_assertion("age", 30),
            Envelope::new("Alice").add_assertion_envelope(dec.clone()).unwrap().add_assertion("knows", "Carol"), Envelope::new("Alice").add_assertion_envelope(ann).unwrap().wrap_envelope().add_assertion_envelope(dec).unwrap()].iter().enumerate() {
            check_envelope(&mut acc, e, &|| format!("decorated{i}"));
        }
    }
    extraction(&mut acc);
    let evals = acc.get("walks") + acc.get("queries") + acc.get("predicate_lookups") + acc.get("extractions");
    let cov = json!({"evaluations": evals,
        "rule": "tree (and every obscuration pattern of the lighter trees, and decode-only shapes): both walk modes compared with an independent traversal of the observed structure as multisets of (path, depth, edge, parent context); elements_count; digests(l) for l = 0..depth+1; accessors; predicate lookups for every present predicate (plain and elided) and absent ones; typed extraction over integer boundary values x 17 target types; distinct = (tree[, subset, action])",
        "exhaustive": true, "bounds": {"tree_weight": w, "obscured_tree_weight": wo}});
    finish(ctx, acc, "exploration", cov, vec!["sibling order is not part of the property and is not compared".into(), "tree-mode edge kinds are not compared (this version passes EdgeType::None there by construction)".into(),
        "for a node whose subject is a node the documented tree view does not determine the parent of the outer assertions: only (digest, level) is compared there".into(),
        "integer <-> float conversions that round to the nearest representable value are accepted".into()])
}
