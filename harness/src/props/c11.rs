//! C11 - SSKR quorum exactness (DESIGN section 4, C11).
use crate::bind;
use crate::refmodel::dcbor::V;
use crate::refmodel::tree::M;
use crate::report::{Acc, Ctx, catch, finish};
use bc_envelope::prelude::*;
use bc_envelope::base::envelope::EnvelopeCase;
use bc_components::{SSKRGroupSpec, SSKRSpec, SymmetricKey};
use bc_rand::SeededRandomNumberGenerator;
use rayon::prelude::*;
use serde_json::json;

fn t(s: &str) -> M { M::Leaf(V::Text(s.into())) }
fn originals() -> Vec<M> {
    let a = |p: &str, o: &str| M::Assertion(Box::new(t(p)), Box::new(t(o)));
    let mut v = vec![t("Secret"), M::Node(Box::new(t("Secret")), vec![a("meta", "data")]), M::Wrapped(Box::new(M::Node(Box::new(t("Secret")), vec![a("meta", "data"), a("k", "v")])))];
    // nodes whose subject is a node (decrypting must rebuild exactly that)
    v.extend(crate::families::nsn().into_iter().take(2)); v.extend(crate::families::valued_few().into_iter().step_by(3));
    v
}
/// all policies: tuples of g groups (t_i, n_i), 1<=t<=n<=N, group threshold 1..g
fn policies(gmax: usize, nmax: usize) -> Vec<(usize, Vec<(usize, usize)>)> {
    let mut gs = vec![]; for n in 1..=nmax { for t in 1..=n { gs.push((t, n)) } }
    let mut out = vec![];
    for g in 1..=gmax {
        let mut idx = vec![0usize; g];
        loop {
            let groups: Vec<(usize, usize)> = idx.iter().map(|&i| gs[i]).collect();
            for gt in 1..=g { out.push((gt, groups.clone())) }
            let mut k = 0; loop { if k == g { break } idx[k] += 1; if idx[k] < gs.len() { break } idx[k] = 0; k += 1 }
            if k == g { break }
        }
    }
    out
}
fn satisfied(gt: usize, groups: &[(usize, usize)], counts: &[usize]) -> bool { counts.iter().zip(groups).filter(|(c, (t, _))| **c >= *t).count() >= gt }

pub fn run(ctx: &Ctx) -> i32 {
    let th = ctx.tier.thorough();
    let quick_pols = { let mut p = policies(2, 4); p.extend(policies(3, 3).into_iter().filter(|x| x.1.len() == 3)); p };
    let (gmax, nmax) = if th { (3, 4) } else { (3, 3) };
    let pols = if th { policies(gmax, nmax) } else { quick_pols };
    let key = SymmetricKey::from_data([7u8; 32]);
    let origs = originals();
    let acc = pols.par_iter().enumerate().with_max_len(1).map(|(pi, (gt, groups))| {
        let mut acc = Acc::new();
        acc.inc("policies");
        let t_pol = std::time::Instant::now();
        // SSKR with a 1-of-n group and SSKR validity rules: the sskr crate refuses some specs (e.g. threshold 1 with n > 1); a refused spec is not a violation
        let spec = match groups.iter().map(|&(t, n)| SSKRGroupSpec::new(t, n)).collect::<Result<Vec<_>, _>>().and_then(|g| SSKRSpec::new(*gt, g)) { Ok(s) => s, Err(_) => { acc.inc("specs_refused_by_sskr"); return acc } };
        // in the quick tier the three envelopes rotate over the policies; thorough: all three for every policy
        let which: Vec<usize> = if th && groups.iter().map(|g| g.1).sum::<usize>() <= 8 { (0..origs.len()).collect() } else { vec![pi % origs.len()] };
        for oi in which {
            let m = &origs[oi];
            let e = bind::build(m, 0);
            let enc = e.encrypt_subject_opt(&key, Some(bind::nonce0())).unwrap();
            let want = bind::observe(&e.subject());
            let mut rng = SeededRandomNumberGenerator::new([pi as u64 + 1, 2, 3, 4]);
            let shares = match catch(|| enc.sskr_split_using(&spec, &key, &mut rng)) { Ok(Ok(s)) => s, Ok(Err(_)) => { acc.inc("splits_refused"); continue } Err(p) => { acc.viol(format!("C11|split|panic|{}", p.loc), p.msg.clone(), format!("policy{pi}/split"), json!({"groups": groups, "group_threshold": gt})); continue } };
            let flat: Vec<(usize, &Envelope)> = shares.iter().enumerate().flat_map(|(gi, v)| v.iter().map(move |x| (gi, x))).collect();
            for (_, s) in &flat {
                if bind::dg(&s.subject()) != bind::dg(&e.subject()) || !matches!(s.subject().case(), EnvelopeCase::Encrypted(_)) { acc.viol("C11|share|subject-digest", "a share envelope does not have the digest-preserving encrypted subject of the original", format!("policy{pi}/share"), json!({"groups": groups})) }
            }
            let total = flat.len();
            for mask in 0u32..(1u32 << total) {
                let mut counts = vec![0usize; groups.len()]; for i in 0..total { if mask >> i & 1 == 1 { counts[flat[i].0] += 1 } }
                let sat = satisfied(*gt, groups, &counts);
                for rev in [false, true] {
                    if rev && (mask.count_ones() < 2 || (!th && mask % 3 != 0)) { continue }
                    let mut subset: Vec<&Envelope> = (0..total).filter(|i| mask >> i & 1 == 1).map(|i| flat[i].1).collect();
                    if rev { subset.reverse() }
                    acc.inc("joins");
                    let cid = || format!("policy{pi}/env{oi}/mask{mask}/rev{}", rev as u8);
                    let det = || json!({"group_threshold": gt, "groups": groups, "members_present_per_group": counts, "policy_satisfied": sat});
                    match catch(|| Envelope::sskr_join(&subset)) {
                        Err(p) => acc.viol(format!("C11|join|panic|{}", p.loc), p.msg.clone(), cid(), det()),
                        Ok(Ok(r)) => {
                            if !sat { acc.viol("C11|quorum-boundary|unsatisfied|returns-envelope", "join succeeded although the subset does not satisfy the policy", cid(), det()) }
                            else if bind::observe(&r) != want { acc.viol("C11|quorum-boundary|satisfied|returns-other", "join returned something else than the original decrypted subject", cid(), det()) }
                            else { acc.inc("joins_recovered"); acc.nontrivial(&(pi, oi, mask)); }
                        }
                        Ok(Err(_)) => { if sat { acc.viol("C11|quorum-boundary|satisfied|refused", "join failed although the subset satisfies the policy", cid(), det()) } else { acc.inc("joins_refused_as_required") } }
                    }
                }
            }
        }
        if std::env::var("VH_DEBUG").is_ok() && t_pol.elapsed().as_secs_f64() > 2.0 { eprintln!("slow policy {pi}: gt={gt} groups={groups:?} {:.1}s joins={}", t_pol.elapsed().as_secs_f64(), acc.get("joins")); }
        if pi % 53 == (ctx.seed as usize % 53) { acc.sample(json!({"group_threshold": gt, "groups_t_of_n": groups, "subsets": "all 2^(total shares)"})) }
        acc
    }).reduce(Acc::new, Acc::merge);
    // shares mixed from two different splits
    let mut acc2 = Acc::new();
    let mix_pols: Vec<(usize, Vec<(usize, usize)>)> = vec![(1, vec![(2, 3)]), (1, vec![(1, 1)]), (2, vec![(2, 2), (1, 1)]), (1, vec![(2, 3), (2, 3)])];
    for (mi, (gt, groups)) in mix_pols.iter().enumerate() {
        let spec = SSKRSpec::new(*gt, groups.iter().map(|&(t, n)| SSKRGroupSpec::new(t, n).unwrap()).collect()).unwrap();
        for same_id in [false, true] {
            let (k1, k2) = (SymmetricKey::from_data([7u8; 32]), SymmetricKey::from_data([8u8; 32]));
            let e1 = bind::build(&origs[1], 0); let e2 = Envelope::new("Another secret").add_assertion("x", "y");
            let mut r1 = SeededRandomNumberGenerator::new([9, 9, 9, 9]);
            let s1: Vec<Envelope> = e1.encrypt_subject(&k1).unwrap().sskr_split_using(&spec, &k1, &mut r1).unwrap().into_iter().flatten().collect();
            // the identifier of a split is the generator's first two bytes: equal seeds give the same identifier; for the "different identifier"
            // case seeds are tried until the identifiers really differ (small seeds of this generator all start with the same bytes)
            let ident = |e: &Envelope| -> Option<u16> { e.object_for_predicate(known_values::SSKR_SHARE).ok()?.extract_subject::<bc_components::SSKRShare>().ok().map(|s| s.identifier()) };
            let mut s2: Vec<Envelope> = vec![];
            for k in 0..64u64 {
                let seed = if same_id { [9, 9, 9, 9] } else { [0x9E37_79B9_7F4A_7C15u64.wrapping_mul(k + 1), 0xD1B5_4A32_D192_ED03u64.wrapping_mul(k + 3), 5 + k, 7 + k] };
                let mut r2 = SeededRandomNumberGenerator::new(seed);
                s2 = e2.encrypt_subject(&k2).unwrap().sskr_split_using(&spec, &k2, &mut r2).unwrap().into_iter().flatten().collect();
                if same_id || ident(&s2[0]) != ident(&s1[0]) { break }
            }
            if (ident(&s2[0]) == ident(&s1[0])) != same_id { acc2.viol("C11|mixed|machinery", "could not produce the intended identifier relation between the two splits", format!("mixed/pol{mi}"), json!({})); continue }
            acc2.inc(if same_id { "mixed_split_pairs_same_identifier" } else { "mixed_split_pairs_different_identifier" });
            let (w1, w2) = (bind::observe(&e1.subject()), bind::observe(&e2.subject()));
            let n = s1.len();
            for m1 in 0u32..(1 << n) { for m2 in 1u32..(1 << n) {
                // does a share mask satisfy the policy? (shares are listed group by group)
                let satisfies = |mask: u32| { let mut off = 0; let mut ok = 0; for &(t, nn) in groups.iter() { let c = (0..nn).filter(|i| mask >> (off + i) & 1 == 1).count(); if c >= t { ok += 1 } off += nn } ok >= *gt };
                for (first_from_2, interleaved) in [(false, false), (true, false), (false, true), (true, true)] {
                    let a: Vec<&Envelope> = (0..n).filter(|i| m1 >> i & 1 == 1).map(|i| &s1[i]).collect();
                    let b: Vec<&Envelope> = (0..n).filter(|i| m2 >> i & 1 == 1).map(|i| &s2[i]).collect();
                    let (x, y) = if first_from_2 { (&b, &a) } else { (&a, &b) };
                    // interleaved: the first share of one split, then the other split's shares, then the rest of the first split
                    if interleaved && (x.len() < 2 || y.is_empty()) { continue }
                    let subset: Vec<&Envelope> = if interleaved { x.iter().take(1).chain(y.iter()).chain(x.iter().skip(1)).cloned().collect() } else { x.iter().chain(y.iter()).cloned().collect() };
                    if subset.is_empty() { continue }
                    acc2.inc("mixed_joins");
                    let first_is_2 = first_from_2 || a.is_empty();
                    let first_split_has_quorum = if first_is_2 { satisfies(m2) } else { satisfies(m1) };
                    let cid = || format!("mixed/pol{mi}/sameid{}/m1={m1}/m2={m2}/first2={}/il{}", same_id as u8, first_from_2 as u8, interleaved as u8);
                    match catch(|| Envelope::sskr_join(&subset)) {
                        Err(p) => acc2.viol(format!("C11|mixed|panic|{}", p.loc), p.msg.clone(), cid(), json!({"policy": groups, "same_identifier": same_id})),
                        Ok(Ok(r)) => { let o = bind::observe(&r); let want = if first_is_2 { &w2 } else { &w1 }; if &o != want { acc2.viol("C11|mixed|returns-other", "join of shares mixed from two splits returned something else than the first envelope's original subject", cid(), json!({"policy": groups, "same_identifier": same_id})) } else { acc2.nontrivial(&("mix", mi, same_id, m1, m2, first_from_2)) } }
                        // A set that mixes two splits is not "a subset of the share envelopes" of one split: the statement demands "never another
                        // envelope, never a panic" and nothing more. A refusal is therefore never a violation - not even when the first envelope's
                        // split has a quorum in the set (counted, so that the evidence shows how often the current code does join there). A
                        // property-preserving change that refuses envelopes with differing subjects (benign/P06, change 1) must stay silent.
                        Ok(Err(_)) => { acc2.inc("mixed_joins_refused"); if !same_id && first_split_has_quorum { acc2.inc("mixed_joins_refused_although_the_first_envelopes_split_has_a_quorum") } }
                    }
                }
            } }
        }
    }
    let acc = acc.merge(acc2);
    // policies at the format's limits (16 members, 16 groups): too many shares for all subsets, so a fixed menu of subsets per policy -
    // everything, everything but one, first / last minimal quorums in both orders, each minimal quorum less one share, quorum preceded by filler
    let big: Vec<(usize, Vec<(usize, usize)>)> = vec![
        (1, vec![(2, 16)]), (1, vec![(16, 16)]), (1, vec![(9, 16)]), (2, vec![(2, 16), (2, 3)]), (2, vec![(2, 16), (1, 1)]), (2, vec![(2, 3), (2, 16)]),
        (5, vec![(3, 4), (4, 4), (4, 4), (4, 4), (4, 4)]), (16, vec![(1, 1); 16]), (2, vec![(1, 1); 16]), (9, vec![(1, 1); 16]), (3, vec![(2, 16), (2, 16), (2, 16)]),
    ];
    let acc3 = big.par_iter().enumerate().with_max_len(1).map(|(pi, (gt, groups))| {
        let mut acc = Acc::new();
        let spec = match groups.iter().map(|&(t, n)| SSKRGroupSpec::new(t, n)).collect::<Result<Vec<_>, _>>().and_then(|g| SSKRSpec::new(*gt, g)) { Ok(s) => s, Err(_) => { acc.inc("specs_refused_by_sskr"); return acc } };
        acc.inc("big_policies");
        let m = &origs[pi % origs.len()]; let e = bind::build(m, 0);
        let enc = e.encrypt_subject_opt(&key, Some(bind::nonce0())).unwrap();
        let want = bind::observe(&e.subject());
        let mut rng = SeededRandomNumberGenerator::new([pi as u64 + 100, 2, 3, 4]);
        let shares = match catch(|| enc.sskr_split_using(&spec, &key, &mut rng)) { Ok(Ok(s)) => s, Ok(Err(_)) => { acc.inc("splits_refused"); return acc } Err(p) => { acc.viol(format!("C11|split|panic|{}", p.loc), p.msg.clone(), format!("big{pi}/split"), json!({"groups": groups})); return acc } };
        let flat: Vec<(usize, &Envelope)> = shares.iter().enumerate().flat_map(|(gi, v)| v.iter().map(move |x| (gi, x))).collect();
        let total = flat.len();
        let start: Vec<usize> = { let mut v = vec![0]; for g in groups { v.push(v.last().unwrap() + g.1) } v };
        let mut menu: Vec<(String, Vec<usize>)> = vec![("all".into(), (0..total).collect()), ("all-reversed".into(), (0..total).rev().collect())];
        for i in 0..total { menu.push((format!("all-but-{i}"), (0..total).filter(|j| *j != i).collect())) }
        for last_groups in [false, true] { for last_members in [false, true] {
            let gsel: Vec<usize> = if last_groups { (groups.len() - gt..groups.len()).collect() } else { (0..*gt).collect() };
            let mut q = vec![]; for &g in &gsel { let (t, n) = groups[g]; let r: Vec<usize> = if last_members { (n - t..n).collect() } else { (0..t).collect() }; q.extend(r.into_iter().map(|k| start[g] + k)) }
            let tag = format!("quorum-{}groups-{}members", if last_groups { "last" } else { "first" }, if last_members { "last" } else { "first" });
            menu.push((tag.clone(), q.clone())); menu.push((format!("{tag}-reversed"), q.iter().rev().cloned().collect()));
            for k in 0..q.len() { let mut x = q.clone(); x.remove(k); menu.push((format!("{tag}-less-{k}"), x)) }
            // filler first: t-1 members of every group that is not selected, then the quorum (the quorum's shares come after position 16 where possible)
            let mut filler = vec![]; for g in 0..groups.len() { if !gsel.contains(&g) { let (t, _) = groups[g]; filler.extend((0..t.saturating_sub(1)).map(|k| start[g] + k)) } }
            let mut x = filler.clone(); x.extend(q.iter().cloned()); menu.push((format!("{tag}-after-filler"), x));
            // surplus members of the selected groups first, the deciding member last
            let mut y: Vec<usize> = vec![]; for &g in &gsel { let (_, n) = groups[g]; y.extend((0..n).map(|k| start[g] + k)) } menu.push((format!("{tag}-all-members-of-selected-groups"), y));
        } }
        for (name, idx) in menu {
            let mut counts = vec![0usize; groups.len()]; for &i in &idx { counts[flat[i].0] += 1 }
            let sat = satisfied(*gt, groups, &counts);
            let subset: Vec<&Envelope> = idx.iter().map(|&i| flat[i].1).collect();
            if subset.is_empty() { continue }
            acc.inc("joins");
            let cid = || format!("big{pi}/{name}");
            let det = || json!({"group_threshold": gt, "groups": groups, "members_present_per_group": counts, "policy_satisfied": sat, "shares_supplied": idx.len()});
            match catch(|| Envelope::sskr_join(&subset)) {
                Err(p) => acc.viol(format!("C11|join|panic|{}", p.loc), p.msg.clone(), cid(), det()),
                Ok(Ok(r)) => { if !sat { acc.viol("C11|quorum-boundary|unsatisfied|returns-envelope", "join succeeded although the subset does not satisfy the policy", cid(), det()) } else if bind::observe(&r) != want { acc.viol("C11|quorum-boundary|satisfied|returns-other", "join returned something else than the original decrypted subject", cid(), det()) } else { acc.inc("joins_recovered"); acc.nontrivial(&("big", pi, name.clone())); } }
                Ok(Err(_)) => { if sat { acc.viol("C11|quorum-boundary|satisfied|refused", "join failed although the subset satisfies the policy", cid(), det()) } else { acc.inc("joins_refused_as_required") } }
            }
        }
        acc
    }).reduce(Acc::new, Acc::merge);
    let acc = acc.merge(acc3);
    // forged / damaged share assertions (as a decoder would hand them over): an 'sskrShare' object that is a tagged byte string of every length
    // 0..=48, an untagged byte string, a text, an elided object - alone, and next to a genuine quorum. Never a panic, never another envelope.
    let mut acc4 = Acc::new();
    {
        let spec = SSKRSpec::new(1, vec![SSKRGroupSpec::new(2, 3).unwrap()]).unwrap();
        let e = bind::build(&origs[1], 0);
        let enc = e.encrypt_subject_opt(&key, Some(bind::nonce0())).unwrap();
        let want = bind::observe(&e.subject());
        let mut rng = SeededRandomNumberGenerator::new([77, 2, 3, 4]);
        let genuine: Vec<Envelope> = enc.sskr_split_using(&spec, &key, &mut rng).unwrap().into_iter().flatten().collect();
        let mut forged: Vec<(String, Envelope)> = vec![];
        for n in 0..=48usize { forged.push((format!("tagged-bytes-{n}"), enc.add_assertion(known_values::SSKR_SHARE, CBOR::to_tagged_value(bc_components::tags::TAG_SSKR_SHARE, CBOR::to_byte_string(vec![0x11u8; n]))))) }
        forged.push(("untagged-bytes".into(), enc.add_assertion(known_values::SSKR_SHARE, CBOR::to_byte_string(vec![1u8; 37]))));
        forged.push(("text".into(), enc.add_assertion(known_values::SSKR_SHARE, "share")));
        forged.push(("elided-object".into(), { let a = Envelope::new_assertion(known_values::SSKR_SHARE, "share"); let t = bind::dset(&[bind::dg(&a.as_object().unwrap())]); enc.add_assertion_envelope(a.elide_removing_set(&t)).unwrap() }));
        forged.push(("wrong-tag".into(), enc.add_assertion(known_values::SSKR_SHARE, CBOR::to_tagged_value(999, CBOR::to_byte_string(vec![1u8; 37])))));
        // truncated and extended copies of a genuine share
        if let Ok(obj) = genuine[0].object_for_predicate(known_values::SSKR_SHARE) { if let Some(c) = obj.as_leaf() { if let Ok((_, inner)) = c.clone().try_into_tagged_value() { if let Ok(b) = inner.try_into_byte_string() {
            for cut in [1usize, 2, 4, 5, 6, b.len() - 1] { forged.push((format!("genuine-truncated-to-{cut}"), enc.add_assertion(known_values::SSKR_SHARE, CBOR::to_tagged_value(bc_components::tags::TAG_SSKR_SHARE, CBOR::to_byte_string(b[..cut].to_vec()))))) }
            let mut ext = b.to_vec(); ext.push(0); forged.push(("genuine-extended-by-1".into(), enc.add_assertion(known_values::SSKR_SHARE, CBOR::to_tagged_value(bc_components::tags::TAG_SSKR_SHARE, CBOR::to_byte_string(ext)))));
        } } } }
        for (fname, f) in &forged {
            // through the decoder as well: what a receiver actually holds
            let fd = Envelope::try_from_cbor_data(f.to_cbor_data()).unwrap_or_else(|_| f.clone());
            let sets: Vec<(&str, Vec<&Envelope>)> = vec![("alone", vec![&fd]), ("twice", vec![&fd, &fd]), ("before-quorum", vec![&fd, &genuine[0], &genuine[1]]), ("after-quorum", vec![&genuine[0], &genuine[1], &fd]), ("with-one-genuine", vec![&genuine[2], &fd])];
            for (sn, subset) in sets {
                acc4.inc("forged_share_joins");
                let cid = || format!("forged/{fname}/{sn}");
                match catch(|| Envelope::sskr_join(&subset)) {
                    Err(p) => acc4.viol(format!("C11|join|panic|{}", p.site), format!("sskr_join panicked on a damaged share assertion: {}", p.msg), cid(), json!({"forged_share": fname, "set": sn, "envelope": hex::encode(fd.to_cbor_data())})),
                    Ok(Ok(r)) => if bind::observe(&r) != want { acc4.viol("C11|forged|returns-other", "join returned something else than the original decrypted subject", cid(), json!({"forged_share": fname})) } else { acc4.inc("forged_share_joins_recovered") },
                    Ok(Err(_)) => acc4.inc("forged_share_joins_refused"),
                }
            }
        }
    }
    let acc = acc.merge(acc4);
    let evals = acc.get("joins") + acc.get("mixed_joins") + acc.get("forged_share_joins");
    let cov = json!({"evaluations": evals,
        "rule": "every policy (g groups, group threshold, per-group t-of-n) within the bounds x EVERY subset of the generated share envelopes (generated order and reversed) judged by the policy model; plus unions of subsets from two different splits (different and equal identifiers); plus damaged share assertions (tagged byte strings of every length 0..48, truncated / extended genuine shares, wrong types) alone and next to a genuine quorum: no panic, no other envelope; plus 11 policies at the limits (16 members, 16 groups) with a fixed menu of subsets (all, all but one, first / last minimal quorums in both orders, each less one share, after filler); distinct non-trivial = joins that recovered the original",
        "exhaustive": true, "bounds": {"groups_max": gmax, "members_max": nmax, "policies": pols.len(), "envelopes": 3}});
    finish(ctx, acc, "exploration", cov, vec!["share generation uses seeded generators through sskr_split_using".into(), "for mixed splits a refusal or the first envelope's original is accepted; which one is not specified".into()])
}
