//! C12 - inclusion proofs complete, sound, minimally revealing (DESIGN section 4, C12).
use crate::bind::{self, O};
use crate::families;
use crate::refmodel::tree::{Kind, M, D};
use crate::report::{Acc, Ctx, catch, finish};
use bc_envelope::prelude::*;
use rayon::prelude::*;
use serde_json::json;
use std::collections::HashSet;

fn digests_in(o: &O, out: &mut HashSet<D>) { out.insert(o.digest()); for (_, c) in o.children() { digests_in(c, out) } }
/// P = digests of all elements on a root-to-target path (targets included); A = digests of proper ancestors of a target occurrence
fn paths(m: &M, t: &HashSet<D>, anc: &mut Vec<D>, p: &mut HashSet<D>, a: &mut HashSet<D>) {
    let d = m.digest();
    if t.contains(&d) { p.insert(d); for x in anc.iter() { p.insert(*x); a.insert(*x); } }
    anc.push(d);
    match m {
        M::Wrapped(e) => paths(e, t, anc, p, a),
        M::Assertion(pr, ob) => { paths(pr, t, anc, p, a); paths(ob, t, anc, p, a) }
        M::Node(s, el) => { paths(s, t, anc, p, a); for x in el { paths(x, t, anc, p, a) } }
        _ => {}
    }
    anc.pop();
}
fn check_minimal(o: &O, t: &HashSet<D>, p: &HashSet<D>, a: &HashSet<D>, path: &str) -> Option<(String, &'static str)> {
    let d = o.digest();
    let elided = matches!(o, O::Obscured(Kind::Elided, _));
    if !p.contains(&d) && !elided { return Some((path.to_string(), "off-path-element-revealed")) }
    if t.contains(&d) && !a.contains(&d) && !elided { return Some((path.to_string(), "target-revealed")) }
    for (n, c) in o.children() { if let Some(x) = check_minimal(c, t, p, a, &format!("{path}/{n}")) { return Some(x) } }
    None
}
fn class(t: &HashSet<D>, root: D, a: &HashSet<D>, absent: bool) -> &'static str {
    if absent { "absent" } else if t.contains(&root) && t.len() > 1 { "root+others" } else if t.contains(&root) { "root" } else if t.iter().any(|d| a.contains(d)) { "nested" } else if t.len() == 1 { "single" } else { "multi" }
}

pub fn run(ctx: &Ctx) -> i32 {
    let th = ctx.tier.thorough();
    let w = if th { 8 } else { 7 };
    let mut trees = families::plain(w); trees.extend(families::nsn()); trees.extend(families::valued());
    let nplain = trees.len();
    trees.extend(families::marked(w));
    // sources that already contain obscured elements: every single-target obscuration (three actions) of the light trees; their digest sets
    // are the digests still OCCURRING in them (ground truth by observation), targets may be the digests of obscured elements
    let mut obscured_sources: Vec<(M, Envelope)> = vec![];
    for m in families::marked(if th { 5 } else { 4 }) {
        let e = bind::build(&m, 0);
        for d in m.distinct_digests().into_iter().skip(1) { for (kind, act) in super::c02::actions() {
            let t: HashSet<D> = [d].into_iter().collect();
            if let Ok(r) = catch(|| e.elide_removing_set_with_action(&bind::dset(&[d]), &act)) { obscured_sources.push((crate::refmodel::ops::elide(&m, &t, false, kind), r)) }
        } }
    }
    let others: Vec<(D, Envelope)> = families::plain(4).iter().map(|m| (m.digest(), bind::build(m, 0))).collect();
    let acc = trees.par_iter().enumerate().with_max_len(1).map(|(ti, m)| {
        let mut acc = Acc::new();
        acc.inc("trees");
        let e = bind::build(m, 0);
        let ds = m.distinct_digests(); let k = ds.len();
        let dset: HashSet<D> = ds.iter().cloned().collect();
        let root = m.digest();
        // all subsets up to 10 distinct digests (every tree of the weight-bounded families); singletons, pairs and the full set beyond (the
        // node-with-node-subject shapes)
        let ms = families::masks(k);
        let all_subsets: Vec<HashSet<Digest>> = ms.iter().map(|mask| bind::dset(&(0..k).filter(|i| mask >> i & 1 == 1).map(|i| ds[i]).collect::<Vec<_>>())).collect();
        for &mask in ms.iter().skip(1) {
            for absent in [false, true] {
                let mut t: HashSet<D> = (0..k).filter(|i| mask >> i & 1 == 1).map(|i| ds[i]).collect();
                if absent { t.insert(families::absent_digest()); }
                let tset = bind::dset(&t.iter().cloned().collect::<Vec<_>>());
                let (mut p, mut a) = (HashSet::new(), HashSet::new()); paths(m, &t, &mut vec![], &mut p, &mut a);
                let cls = class(&t, root, &a, absent);
                let cid = || format!("tree{ti}/mask{mask}/absent{}", absent as u8);
                let det = || json!({"tree": m.show(), "targets": t.iter().map(|d| hex::encode(&d[..4])).collect::<Vec<_>>(), "class": cls});
                acc.inc("proof_requests");
                let proof = match catch(|| e.proof_contains_set(&tset)) { Ok(p) => p, Err(pn) => { acc.viol(format!("C12|panic|{}", pn.loc), pn.msg.clone(), cid(), det()); continue } };
                let should = t.is_subset(&dset);
                match (&proof, should) {
                    (None, false) => { acc.inc("refused_as_required"); continue }
                    (None, true) => { acc.viol(format!("C12|complete|{cls}|no-proof"), "no proof produced although every target occurs in the envelope", cid(), det()); continue }
                    (Some(_), false) => { acc.viol(format!("C12|complete|{cls}|proof-for-absent-target"), "a proof was produced although a target does not occur in the envelope", cid(), det()); continue }
                    _ => {}
                }
                let proof = proof.unwrap();
                acc.inc("proofs_produced");
                acc.nontrivial(&(ti, mask));
                let po = bind::observe(&proof);
                if po.digest() != root { acc.viol(format!("C12|complete|{cls}|root-digest"), "proof does not have the envelope's root digest", cid(), det()) }
                // accepted by a verifier who holds only the root digest
                let verifier = bind::elided_from_digest(root);
                match catch(|| (verifier.confirm_contains_set(&tset, &proof), e.confirm_contains_set(&tset, &proof))) {
                    Ok((true, true)) => {}
                    Ok(_) => acc.viol(format!("C12|complete|{cls}|own-proof-rejected"), "a produced proof is rejected for its own targets", cid(), det()),
                    Err(pn) => acc.viol(format!("C12|panic|{}", pn.loc), pn.msg.clone(), cid(), det()),
                }
                // minimal disclosure, stated by digest
                if let Some((path, what)) = check_minimal(&po, &t, &p, &a, "") { acc.viol(format!("C12|minimal|{cls}|{what}"), format!("proof discloses more than the paths to the targets at {path}"), cid(), json!({"tree": m.show(), "proof": hex::encode(proof.to_cbor_data()), "class": cls})) }
                // soundness (1): this proof checked for EVERY other target set of the envelope: accepted only if all those targets occur in the proof
                let mut occurring = HashSet::new(); digests_in(&po, &mut occurring);
                if ti < nplain || th {
                    for (m2, t2) in all_subsets.iter().enumerate() {
                        if m2 == 0 { continue }
                        acc.inc("soundness_other_target_sets");
                        let occurs = t2.iter().all(|d| occurring.contains(d.data()));
                        if verifier.confirm_contains_set(t2, &proof) && !occurs { acc.viol(format!("C12|sound|{cls}|target-not-in-proof-accepted"), "verifier accepted a proof in which a target does not occur", format!("{}/othertargets{m2}", cid()), det()) }
                    }
                }
                // soundness (2): the proof presented against every other envelope of a family
                if mask.count_ones() <= 2 {
                    for (od, oe) in &others { if *od != root { acc.inc("soundness_other_envelopes"); if oe.confirm_contains_set(&tset, &proof) { acc.viol(format!("C12|sound|{cls}|other-root-accepted"), "a verifier accepted a proof whose root digest differs from its own", cid(), det()) } } }
                }
                // soundness (3): single-element mutations of the proof
                if mask.count_ones() <= 2 && (ti < nplain) {
                    let mut muts: Vec<(&str, Envelope)> = vec![];
                    // replace each elided digest of the proof by another digest of the family
                    let mut elided = vec![]; collect_elided(&po, &mut elided);
                    for d in elided.iter().take(4) { for repl in ds.iter().filter(|x| *x != d).take(3) {
                        let bytes = proof.to_cbor_data(); if let Some(pos) = find(&bytes, d) { let mut b = bytes.clone(); b[pos..pos + 32].copy_from_slice(repl); if let Ok(x) = Envelope::try_from_cbor_data(b) { muts.push(("replace-elided-digest", x)) } }
                    } }
                    muts.push(("add-assertion", proof.add_assertion("extra", "x")));
                    if let Some(first) = proof.assertions().first() { muts.push(("drop-assertion", proof.remove_assertion(first.clone()))) }
                    muts.push(("re-root-wrap", proof.wrap_envelope()));
                    muts.push(("re-root-subject", proof.subject()));
                    for (mn, mp) in muts {
                        acc.inc("soundness_mutated_proofs");
                        let mo = bind::observe(&mp); let mut occ = HashSet::new(); digests_in(&mo, &mut occ);
                        let ok_to_accept = mo.digest() == root && t.iter().all(|d| occ.contains(d));
                        if verifier.confirm_contains_set(&tset, &mp) && !ok_to_accept { acc.viol(format!("C12|sound|{cls}|mutated-proof-accepted|{mn}"), "a mutated proof (different root, or a target missing) was accepted", format!("{}/mut-{mn}", cid()), det()) }
                    }
                }
            }
        }
        if ti % 173 == (ctx.seed as usize % 173) { acc.sample(json!({"tree": m.show(), "target_subsets": (1u32 << k) - 1, "plus_absent": true})) }
        acc
    }).reduce(Acc::new, Acc::merge);
    let wide = families::wide_all(th);
    let accw = wide.par_iter().enumerate().with_max_len(1).map(|(wi, (wn, m))| {
        let mut acc = Acc::new();
        let Ok(e) = catch(|| bind::build(m, 0)) else { return acc };
        let ds = m.distinct_digests(); let root = m.digest();
        let picks: Vec<usize> = (0..ds.len()).filter(|i| *i < 5 || i % 71 == 0 || *i + 2 >= ds.len()).collect();
        let mut sets: Vec<Vec<D>> = picks.iter().map(|i| vec![ds[*i]]).collect();
        for w in picks.windows(2) { sets.push(vec![ds[w[0]], ds[w[1]]]) }
        sets.push(vec![ds[ds.len() - 1], families::absent_digest()]);
        // large target sets (more than 16 / 32 / 64 targets), honest and with absent digests mixed in
        for k in [16usize, 17, 33, 65] { if ds.len() >= k { sets.push(ds[..k].to_vec()); sets.push(ds[ds.len() - k..].to_vec()) } }
        if ds.len() > 17 { sets.push(ds.clone()); }
        for k in [15usize, 16, 17, 40] { for &i in picks.iter().take(3) { let mut v = vec![ds[i]]; v.extend(families::absent_digests(k)); sets.push(v) } }
        // verifier alone: an honest proof for a large set checked against the same set with one target swapped for an absent digest, and
        // a proof for one (possibly many-position) target checked against that target plus absent ones
        for k in [17usize, 33] { if ds.len() >= k {
            let tv = ds[..k].to_vec(); let tset = bind::dset(&tv);
            if let Ok(Some(proof)) = catch(|| e.proof_contains_set(&tset)) {
                for swap in [0, k / 2, k - 1] { acc.inc("proof_requests"); let mut bad = tv.clone(); bad[swap] = families::absent_digest();
                    if let Ok(true) = catch(|| bind::elided_from_digest(root).confirm_contains_set(&bind::dset(&bad), &proof)) { acc.viol("C12|sound|wide|absent-target-confirmed", "a proof is accepted for a target set containing a digest that occurs nowhere in it", format!("wide/{wn}/swap{swap}-of-{k}"), json!({"shape": wn})) } }
            }
        } }
        for &i in picks.iter().take(4) { let tset1 = bind::dset(&[ds[i]]); if let Ok(Some(proof)) = catch(|| e.proof_contains_set(&tset1)) { for k in [1usize, 16, 17, 40] {
            acc.inc("proof_requests"); let mut bad = vec![ds[i]]; bad.extend(families::absent_digests(k));
            if let Ok(true) = catch(|| bind::elided_from_digest(root).confirm_contains_set(&bind::dset(&bad), &proof)) { acc.viol("C12|sound|wide|absent-target-confirmed", "a proof is accepted for a target set containing digests that occur nowhere in it", format!("wide/{wn}/target{i}+{k}absent"), json!({"shape": wn})) }
        } } }
        for tv in sets {
            acc.inc("proof_requests");
            let t: HashSet<D> = tv.iter().cloned().collect(); let tset = bind::dset(&tv);
            let absent = tv.iter().any(|d| !ds.contains(d));
            let cid = || format!("wide/{wn}/{}", tv.iter().take(4).map(|d| hex::encode(&d[..3])).collect::<Vec<_>>().join("+") + &format!("/{}targets", tv.len()));
            let (mut p, mut a) = (HashSet::new(), HashSet::new()); paths(m, &t, &mut vec![], &mut p, &mut a);
            match catch(|| e.proof_contains_set(&tset)) {
                Err(pn) => acc.viol(format!("C12|panic|{}", pn.site), pn.msg.clone(), cid(), json!({"shape": wn})),
                Ok(None) => if !absent { acc.viol("C12|complete|wide|no-proof", "no proof for present targets on a wide shape", cid(), json!({"shape": wn})) },
                Ok(Some(proof)) => {
                    if absent { acc.viol("C12|complete|wide|proof-for-absent-target", "proof for an absent target", cid(), json!({"shape": wn})); continue }
                    let po = bind::observe(&proof);
                    if po.digest() != root || !bind::elided_from_digest(root).confirm_contains_set(&tset, &proof) { acc.viol("C12|complete|wide|own-proof-rejected", "a produced proof has another root digest or is rejected for its own targets", cid(), json!({"shape": wn})) }
                    if let Some((path, what)) = check_minimal(&po, &t, &p, &a, "") { acc.viol(format!("C12|minimal|wide|{what}"), format!("proof discloses more than the paths at {path}"), cid(), json!({"shape": wn})) }
                    acc.nontrivial(&("wide", wi, tv.len()));
                }
            }
        }
        acc
    }).reduce(Acc::new, Acc::merge);
    let acc = acc.merge(accw);
    let acc_obs = obscured_sources.par_iter().enumerate().with_max_len(1).map(|(si, (m, e))| {
        let mut acc = Acc::new();
        let ds = m.distinct_digests(); let k = ds.len().min(8);
        let dset: HashSet<D> = m.distinct_digests().into_iter().collect();
        let root = m.digest();
        for mask in 1u32..(1u32 << k) { for absent in [false, true] {
            let mut t: HashSet<D> = (0..k).filter(|i| mask >> i & 1 == 1).map(|i| ds[i]).collect();
            if absent { t.insert(families::absent_digest()); }
            let tset = bind::dset(&t.iter().cloned().collect::<Vec<_>>());
            acc.inc("proof_requests_on_obscured_sources");
            let cid = || format!("obscured-source{si}/mask{mask}/absent{}", absent as u8);
            let det = || json!({"source": m.show(), "targets": t.iter().map(|d| hex::encode(&d[..4])).collect::<Vec<_>>()});
            let (mut p, mut a) = (HashSet::new(), HashSet::new()); paths(m, &t, &mut vec![], &mut p, &mut a);
            match catch(|| e.proof_contains_set(&tset)) {
                Err(pn) => acc.viol(format!("C12|panic|{}", pn.site), pn.msg.clone(), cid(), det()),
                Ok(None) => if t.is_subset(&dset) { acc.viol("C12|complete|obscured-source|no-proof", "no proof although every target occurs in the (partly obscured) envelope", cid(), det()) },
                Ok(Some(proof)) => {
                    if !t.is_subset(&dset) { acc.viol("C12|complete|obscured-source|proof-for-absent-target", "proof produced for an absent target", cid(), det()); continue }
                    let po = bind::observe(&proof);
                    if po.digest() != root { acc.viol("C12|complete|obscured-source|root-digest", "proof root digest differs", cid(), det()) }
                    if !bind::elided_from_digest(root).confirm_contains_set(&tset, &proof) { acc.viol("C12|complete|obscured-source|own-proof-rejected", "a produced proof is rejected for its own targets", cid(), det()) }
                    // minimality: nothing off the paths is revealed; an element that was encrypted / compressed in the source may stay so only on a path
                    fn revealed_off_path(o: &O, p: &HashSet<D>, path: &str) -> Option<String> { if !p.contains(&o.digest()) && !matches!(o, O::Obscured(Kind::Elided, _)) { return Some(path.to_string()) } for (n, c) in o.children() { if let Some(x) = revealed_off_path(c, p, &format!("{path}/{n}")) { return Some(x) } } None }
                    if let Some(path) = revealed_off_path(&po, &p, "") { acc.viol("C12|minimal|obscured-source|off-path-element-revealed", format!("proof discloses an element off the paths at {path}"), cid(), det()) }
                    acc.nontrivial(&("obs", si, mask));
                }
            }
        } }
        acc
    }).reduce(Acc::new, Acc::merge);
    let acc = acc.merge(acc_obs);
    let evals = acc.get("proof_requests_on_obscured_sources") + acc.get("proof_requests") + acc.get("soundness_other_target_sets") + acc.get("soundness_other_envelopes") + acc.get("soundness_mutated_proofs");
    let cov = json!({"evaluations": evals,
        "rule": "tree (both marker instantiations) x every non-empty subset of its digests, with and without one absent digest: completeness, root digest, acceptance by a root-only verifier, minimal disclosure by digest; soundness against every other target subset, every other envelope of a family, single-element mutations; distinct = (tree, subset) with a produced proof",
        "exhaustive": true, "bounds": {"tree_weight": w, "other_envelopes": others.len()}});
    finish(ctx, acc, "exploration", cov, vec!["minimality is stated by digest, so equal content at several positions cannot raise an alarm".into(), "ground truth for 'a target occurs in the proof' is the set of digests observed in the proof through Envelope::case()".into()])
}
fn collect_elided(o: &O, out: &mut Vec<D>) { if let O::Obscured(Kind::Elided, d) = o { if !out.contains(d) { out.push(*d) } } for (_, c) in o.children() { collect_elided(c, out) } }
fn find(h: &[u8], n: &[u8]) -> Option<usize> { h.windows(n.len()).position(|w| w == n) }
