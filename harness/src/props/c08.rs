//! C08 - symmetric encryption round-trips, keeps digests, is bound to them (DESIGN section 4, C08).
use crate::bind;
use crate::families;
use crate::refmodel::dcbor::{self, V};
use crate::refmodel::grammar;
use crate::refmodel::sha256::sha256;
use crate::refmodel::tree::M;
use crate::report::{Acc, Ctx, catch, finish};
use bc_envelope::prelude::*;
use bc_envelope::base::envelope::EnvelopeCase;
use bc_components::{SymmetricKey, Nonce};
use rayon::prelude::*;
use serde_json::json;

/// find the (first) encrypted item in an encoded envelope and apply `f` to its four fields [ciphertext, nonce, auth, aad]
fn map_encrypted(v: &V, f: &dyn Fn(&mut Vec<V>), done: &mut bool) -> V {
    if *done { return v.clone() }
    match v {
        V::Tag(40002, inner) => { if let V::Array(a) = &**inner { let mut a2 = a.clone(); f(&mut a2); *done = true; V::Tag(40002, Box::new(V::Array(a2))) } else { v.clone() } }
        V::Tag(200, c) => V::Tag(200, Box::new(map_encrypted(c, f, done))),
        V::Array(a) => { let mut out = vec![]; for x in a { out.push(map_encrypted(x, f, done)) } V::Array(out) }
        _ => v.clone(),
    }
}
fn subject_case(m: &M) -> &'static str { match crate::refmodel::ops::subject(m) { M::Leaf(_) => "leaf", M::Known(_) => "known", M::Wrapped(_) => "wrapped", M::Assertion(..) => "assertion", M::Node(..) => "node", M::Obscured(..) => "obscured" } }

fn try_decrypt(bytes: &[u8], key: &SymmetricKey) -> Result<Option<Envelope>, crate::report::Panic> {
    catch(|| { let e = Envelope::try_from_cbor_data(bytes.to_vec()).ok()?; e.decrypt_subject(key).ok() })
}

pub fn run(ctx: &Ctx) -> i32 {
    let th = ctx.tier.thorough();
    let mut trees = families::marked(if th { 7 } else { 6 }); // unique markers: the subject digest occurs at one position only
    trees.extend(families::decode_only().into_iter().take(2)); trees.extend(families::nsn()); trees.extend(families::valued()); trees.extend(families::decorated_obscured()); // nodes whose subject is a node
    let keys = [bind::key0(), bind::key1()];
    let nonces = [bind::nonce0(), bind::nonce1()];
    let full_bits_for = usize::MAX; // quick: all bit flips on the first 12 trees, one key/nonce; pristine checks on all
    let acc = trees.par_iter().enumerate().with_max_len(1).map(|(ti, m)| {
        let mut acc = Acc::new();
        let e = if m.encode().is_some() && ti >= trees.len() - 2 { bind::build_route(m, bind::Route::Decode) } else { bind::build(m, 0) };
        let ob = bind::observe(&e);
        let sc = subject_case(m);
        for (ki, key) in keys.iter().enumerate() {
            for (ni, nonce) in nonces.iter().enumerate() {
                // --- pristine round trips through the three encryption entry points
                let cid = |s: &str| format!("tree{ti}/k{ki}n{ni}/{s}");
                acc.inc("pristine_roundtrips");
                match catch(|| e.encrypt_subject_opt(key, Some(nonce.clone()))) {
                    Err(p) => acc.viol(format!("C08|roundtrip|panic|{}", p.loc), p.msg.clone(), cid("encrypt_subject"), json!({"tree": m.show()})),
                    Ok(Err(er)) => acc.viol(format!("C08|roundtrip|{sc}|encrypt-refused"), format!("encrypt_subject refused: {er}"), cid("encrypt_subject"), json!({"tree": m.show()})),
                    Ok(Ok(enc)) => {
                        if bind::dg(&enc) != m.digest() { acc.viol(format!("C08|roundtrip|{sc}|digest"), "encrypted form does not have the original's digest", cid("encrypt_subject"), json!({"tree": m.show()})) }
                        if !matches!(enc.subject().case(), EnvelopeCase::Encrypted(_)) { acc.viol(format!("C08|roundtrip|{sc}|not-encrypted"), "subject is not an encrypted element after encrypt_subject", cid("encrypt_subject"), json!({"tree": m.show()})) }
                        match catch(|| enc.decrypt_subject(key)) {
                            Ok(Ok(d)) => if bind::observe(&d) != ob || !d.is_identical_to(&e) { acc.viol(format!("C08|roundtrip|{sc}|differs"), "decrypt(encrypt(e)) is not identical to e", cid("decrypt_subject"), json!({"tree": m.show(), "got": hex::encode(d.to_cbor_data())})) } else { acc.nontrivial(&(ti, ki, ni, "es")) },
                            Ok(Err(er)) => acc.viol(format!("C08|roundtrip|{sc}|decrypt-failed"), format!("decrypt with the right key failed: {er}"), cid("decrypt_subject"), json!({"tree": m.show()})),
                            Err(p) => acc.viol(format!("C08|roundtrip|panic|{}", p.loc), p.msg.clone(), cid("decrypt_subject"), json!({"tree": m.show()})),
                        }
                        // a subject that is already encrypted is refused a second encryption (bare and node arms)
                        acc.inc("double_encryption_attempts");
                        match catch(|| enc.encrypt_subject_opt(&keys[1 - ki], Some(nonce.clone()))) {
                            Ok(Ok(_)) => acc.viol(format!("C08|double-encrypt|{}", if matches!(enc.case(), EnvelopeCase::Node { .. }) { "node" } else { "bare" }), "an already encrypted subject was encrypted a second time", cid("encrypt_subject-twice"), json!({"tree": m.show()})),
                            Ok(Err(_)) => {}
                            Err(p) => acc.viol(format!("C08|double-encrypt|panic|{}", p.loc), p.msg.clone(), cid("encrypt_subject-twice"), json!({})),
                        }
                        // wrong key
                        acc.inc("faults");
                        if let Ok(Ok(_)) = catch(|| enc.decrypt_subject(&keys[1 - ki])) { acc.viol("C08|wrong-key|decrypts", "decryption with another key succeeded", cid("wrong-key"), json!({"tree": m.show()})) }
                        // --- every single-bit flip of every field, re-wrapped through the public decoder
                        if ti < full_bits_for && (ki == 0 || th) && (ni == 0 || th || ti % 4 == 0) {
                            let bytes = enc.to_cbor_data();
                            let v = grammar::parse_cbor(&bytes).expect("own parser reads library output");
                            let fields = ["ciphertext", "nonce", "auth", "aad"];
                            let lens: Vec<usize> = { let mut l = vec![]; let mut d = false; map_encrypted(&v, &|a| { let _ = a; }, &mut d); let mut dd = false; let _ = map_encrypted(&v, &|_a| {}, &mut dd);
                                let mut got = vec![]; let mut d3 = false; let cell = std::cell::RefCell::new(vec![]); map_encrypted(&v, &|a| { *cell.borrow_mut() = a.iter().map(|x| if let V::Bytes(b) = x { b.len() } else { 0 }).collect() }, &mut d3); got.extend(cell.into_inner()); l.extend(got); l };
                            for (fi, fname) in fields.iter().enumerate() {
                                for bit in 0..lens.get(fi).copied().unwrap_or(0) * 8 {
                                    acc.inc("faults"); acc.inc("bit_flips");
                                    let mut d = false;
                                    let tv = map_encrypted(&v, &|a| { if let V::Bytes(b) = &mut a[fi] { b[bit / 8] ^= 1 << (bit % 8) } }, &mut d);
                                    match try_decrypt(&dcbor::bytes(&tv), key) {
                                        Ok(None) => {}
                                        Ok(Some(r)) => acc.viol(format!("C08|bit-flip|{fname}"), "decryption succeeded after a single-bit change", cid(&format!("flip/{fname}/{bit}")), json!({"tree": m.show(), "got": hex::encode(r.to_cbor_data())})),
                                        Err(p) => acc.viol(format!("C08|bit-flip|panic|{}", p.loc), p.msg.clone(), cid(&format!("flip/{fname}/{bit}")), json!({})),
                                    }
                                }
                            }
                            // field swapped with the same field of another message (same key, other nonce / other plaintext), AAD removed / replaced
                            let other = Envelope::new("other-plaintext").encrypt_subject_opt(key, Some(nonces[1 - ni].clone())).unwrap();
                            let ov = grammar::parse_cbor(&other.to_cbor_data()).unwrap();
                            let of = std::cell::RefCell::new(vec![]); let mut d = false; map_encrypted(&ov, &|a| { *of.borrow_mut() = a.clone() }, &mut d);
                            let of = of.into_inner();
                            for fi in 0..4 {
                                acc.inc("faults");
                                let mut d = false; let tv = map_encrypted(&v, &|a| { a[fi] = of[fi].clone() }, &mut d);
                                if let Ok(Some(_)) = try_decrypt(&dcbor::bytes(&tv), key) { acc.viol(format!("C08|field-swap|{}", fields[fi]), "decryption succeeded after a field was replaced by another message's", cid(&format!("swap/{fi}")), json!({"tree": m.show()})) }
                            }
                            acc.inc("faults");
                            let mut d = false; let tv = map_encrypted(&v, &|a| { a.truncate(3) }, &mut d);
                            if let Ok(Some(_)) = try_decrypt(&dcbor::bytes(&tv), key) { acc.viol("C08|aad-removed|decrypts", "decryption succeeded with the declared digest removed", cid("aad-removed"), json!({"tree": m.show()})) }
                        }
                    }
                }
                // encrypt() = wrap + encrypt_subject; decrypt() reverses
                acc.inc("pristine_roundtrips");
                match catch(|| { let enc = e.encrypt(key); let d = enc.decrypt(key); (enc, d) }) {
                    Ok((enc, Ok(d))) => {
                        if bind::dg(&enc) != sha256(&m.digest()) { acc.viol("C08|encrypt-wrap|digest", "encrypt() result does not have the digest of the wrapped original", cid("encrypt"), json!({"tree": m.show()})) }
                        if bind::observe(&d) != ob { acc.viol(format!("C08|encrypt-wrap|{sc}|differs"), "decrypt(encrypt(e)) is not identical to e", cid("decrypt"), json!({"tree": m.show()})) }
                    }
                    Ok((_, Err(er))) => acc.viol("C08|encrypt-wrap|decrypt-failed", format!("{er}"), cid("decrypt"), json!({"tree": m.show()})),
                    Err(p) => acc.viol(format!("C08|encrypt-wrap|panic|{}", p.loc), p.msg.clone(), cid("encrypt"), json!({})),
                }
                // the WHOLE envelope turned into an encrypted element by the Encrypt obscure action, then decrypt_subject
                acc.inc("pristine_roundtrips");
                match catch(|| bind::obscure_whole(&e, crate::refmodel::tree::Kind::Encrypted)) {
                    Ok(enc) if ki == 0 => match catch(|| enc.decrypt_subject(key)) {
                        Ok(Ok(d)) => if bind::observe(&d) != ob { acc.viol(format!("C08|elide-encrypt-whole|{sc}|differs"), "decrypting a whole envelope encrypted by the Encrypt action does not give it back", cid("elide-encrypt-whole"), json!({"tree": m.show()})) },
                        Ok(Err(er)) => acc.viol(format!("C08|elide-encrypt-whole|{sc}|decrypt-failed"), format!("{er}"), cid("elide-encrypt-whole"), json!({"tree": m.show()})),
                        Err(p) => acc.viol(format!("C08|elide-encrypt-whole|panic|{}", p.site), p.msg.clone(), cid("elide-encrypt-whole"), json!({})),
                    },
                    _ => {}
                }
                // elide-with-Encrypt of the subject, then decrypt_subject
                acc.inc("pristine_roundtrips");
                let sd = bind::dset(&[bind::dg(&e.subject())]);
                match catch(|| e.elide_removing_set_with_action(&sd, &ObscureAction::Encrypt(key.clone()))) {
                    Ok(enc) => {
                        if bind::dg(&enc) != m.digest() { acc.viol("C08|elide-encrypt|digest", "digest changed", cid("elide-encrypt"), json!({"tree": m.show()})) }
                        match catch(|| enc.decrypt_subject(key)) {
                            Ok(Ok(d)) => if bind::observe(&d) != ob { acc.viol(format!("C08|elide-encrypt|{sc}|differs"), "decrypting the element produced by the Encrypt elide action does not give back the original", cid("elide-encrypt"), json!({"tree": m.show(), "got": hex::encode(d.to_cbor_data())})) },
                            Ok(Err(er)) => acc.viol(format!("C08|elide-encrypt|{sc}|decrypt-failed"), format!("{er}"), cid("elide-encrypt"), json!({"tree": m.show()})),
                            Err(p) => acc.viol(format!("C08|elide-encrypt|panic|{}", p.loc), p.msg.clone(), cid("elide-encrypt"), json!({})),
                        }
                    }
                    Err(_) => acc.inc("panics_counted_under_C16"),
                }
            }
        }
        if ti % 37 == (ctx.seed as usize % 37) { acc.sample(json!({"tree": m.show(), "keys": 2, "nonces": 2, "faults": "wrong key, every bit of ciphertext/nonce/auth/aad, field swaps, aad removed"})) }
        acc
    }).reduce(Acc::new, Acc::merge);

    // key-holder forgeries: plaintext X under declared digest of Y
    let fam: Vec<M> = { let mut f = families::plain(3); f.extend(families::marked(4).into_iter().skip(18).take(if th { 30 } else { 10 })); f };
    // nodes together with their own subjects: (plaintext = node, declared digest = digest of its subject) is the forgery a merged digest check misses
    let fam: Vec<M> = { let mut f = fam; for n in families::marked(6).into_iter().filter(|m| matches!(m, M::Node(..))).take(if th { 24 } else { 8 }) { f.push(crate::refmodel::ops::subject(&n).clone()); f.push(n); } f };
    let fenv: Vec<Envelope> = fam.iter().map(|m| bind::build(m, 0)).collect();
    let key = bind::key0();
    let acc2 = (0..fam.len()).into_par_iter().with_max_len(1).map(|i| {
        let mut acc = Acc::new();
        for j in 0..fam.len() {
            if fam[i].digest() == fam[j].digest() { continue }
            acc.inc("forgeries");
            let msg = key.encrypt_with_digest(fenv[i].to_cbor_data(), Digest::from_data(fam[j].digest()), Some(bind::nonce0()));
            let cid = |s: &str| format!("forge/{i}/{j}/{s}");
            // bare subject
            match catch(|| Envelope::try_from(msg.clone()).ok().and_then(|x| x.decrypt_subject(&key).ok())) {
                Ok(None) => {}
                Ok(Some(r)) => acc.viol("C08|forgery|bare|accepted", "a ciphertext whose plaintext does not hash to the declared digest was accepted", cid("bare"), json!({"plaintext": fam[i].show(), "declares_digest_of": fam[j].show(), "got": hex::encode(r.to_cbor_data())})),
                Err(p) => acc.viol(format!("C08|forgery|panic|{}", p.loc), p.msg.clone(), cid("bare"), json!({})),
            }
            // subject of a node whose digest was computed from the declared digest
            match catch(|| Envelope::try_from(msg.clone()).ok().and_then(|x| x.add_assertion("k", "v").decrypt_subject(&key).ok())) {
                Ok(None) => {}
                Ok(Some(r)) => acc.viol("C08|forgery|node|accepted", "forged encrypted subject of a node was accepted", cid("node"), json!({"plaintext": fam[i].show(), "declares_digest_of": fam[j].show(), "got": hex::encode(r.to_cbor_data())})),
                Err(p) => acc.viol(format!("C08|forgery|panic|{}", p.loc), p.msg.clone(), cid("node"), json!({})),
            }
            acc.nontrivial(&("forge", i, j));
        }
        acc
    }).reduce(Acc::new, Acc::merge);
    let mut acc = acc.merge(acc2);
    // plaintext that is not an envelope / not canonical
    for (n, pt) in [("not-cbor", vec![0xffu8, 0x00]), ("cbor-not-envelope", vec![0x61, 0x61]), ("untagged-leaf", vec![0xd8, 0xc9, 0x61, 0x61]), ("noncanonical-envelope", vec![0xd8, 0xc8, 0xd8, 0xc9, 0x18, 0x01]), ("empty", vec![])] {
        acc.inc("forgeries");
        let declared = Digest::from_image(&pt);
        let msg = key.encrypt_with_digest(pt.clone(), declared, Some(bind::nonce0()));
        match catch(|| Envelope::try_from(msg.clone()).ok().and_then(|x| x.decrypt_subject(&key).ok())) {
            Ok(None) => {}
            Ok(Some(_)) => acc.viol(format!("C08|forgery|plaintext-{n}|accepted"), "non-envelope plaintext accepted", format!("forge/plaintext/{n}"), json!({"plaintext": hex::encode(&pt)})),
            Err(p) => acc.viol(format!("C08|forgery|panic|{}", p.loc), p.msg.clone(), format!("forge/plaintext/{n}"), json!({})),
        }
    }
    let evals = acc.get("pristine_roundtrips") + acc.get("faults") + acc.get("forgeries") + acc.get("double_encryption_attempts");
    let cov = json!({"evaluations": evals,
        "rule": "pristine: every tree x 2 keys x 2 nonces x {encrypt_subject, encrypt, elide-with-Encrypt}; faults: wrong key, EVERY single-bit flip of ciphertext / nonce / tag / AAD re-wrapped through the decoder, field swaps, AAD removed; forgeries: every ordered pair (plaintext X, declared digest of Y) bare and as node subject; distinct = (tree, key, nonce) and (X, Y) pairs",
        "exhaustive": true,
        "bounds": {"tree_weight": if th { 7 } else { 6 }, "bit_flip_key_nonce_pairs": if th { 4 } else { 1 }, "forgery_family": fam.len()}});
    finish(ctx, acc, "fault_enumeration", cov, vec!["keys are data values: 'no other key' means no other key of the finite key set".into(), "AEAD strength is exercised, not analysed".into()])
}
