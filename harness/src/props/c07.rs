//! C07 - same information in any order gives the identical envelope (DESIGN section 4, C07).
use crate::bind;
use crate::explore;
use crate::families;
use crate::refmodel::dcbor::V;
use crate::refmodel::tree::{Kind, M};
use crate::report::{Acc, Ctx, catch, finish};
use bc_envelope::prelude::*;
use rayon::prelude::*;
use serde_json::json;
use std::collections::{BTreeMap, BTreeSet, HashMap, HashSet};

fn t(s: &str) -> M { M::Leaf(V::Text(s.into())) }
fn a(p: M, o: M) -> M { M::Assertion(Box::new(p), Box::new(o)) }
/// pool of assertion elements; (name, model, group) - members of one group are different FORMS of the same digest
fn pool7() -> Vec<(&'static str, M)> {
    let a1 = a(t("p1"), t("o1"));
    vec![
        ("a1", a1.clone()),
        ("a2", a(M::Known(1), t("o2"))),
        ("a3", a(t("p1"), t("o3"))),
        ("a4", a(t("p4"), M::Node(Box::new(t("n")), vec![a(t("x"), t("y"))]))),
        ("a5dec", M::Node(Box::new(a(t("p5"), t("o5"))), vec![a(M::Known(15), M::Leaf(V::Tag(40018, Box::new(V::Bytes(vec![5; 16])))))])), // decorated (salted with a fixed salt)
        ("a6el", M::Obscured(Kind::Elided, a(t("p6"), t("o6")).digest(), None)),
        ("a1el", M::Obscured(Kind::Elided, a1.digest(), None)), // other FORM of a1: same digest
    ]
}
/// all sequences over 0..n of length exactly len
fn sequences(n: usize, len: usize) -> Vec<Vec<usize>> {
    let mut out = vec![vec![]];
    for _ in 0..len { let mut nx = vec![]; for s in &out { for i in 0..n { let mut s2: Vec<usize> = s.clone(); s2.push(i); nx.push(s2) } } out = nx }
    out
}

fn part_a(ctx: &Ctx, maxlen: usize) -> Acc {
    let pool = pool7();
    let penv: Vec<Envelope> = pool.iter().map(|(_, m)| bind::build_route(m, if m.encode().is_some() { bind::Route::Decode } else { bind::Route::Envelopes(0) })).collect();
    let subjects: Vec<M> = vec![t("a"), M::Leaf(V::U(1)), M::Known(1), M::Wrapped(Box::new(t("a"))), a(t("sp"), t("so"))];
    let mut seqs = vec![]; for l in 1..=maxlen { seqs.extend(sequences(pool.len(), l)) }
    subjects.par_iter().enumerate().with_max_len(1).map(|(si, sm)| {
        let mut acc = Acc::new();
        let s = bind::build(sm, 0);
        // group results by the set of pool indices used
        let mut by_set: BTreeMap<BTreeSet<usize>, (Vec<u8>, Vec<usize>)> = BTreeMap::new();
        for seq in &seqs {
            acc.inc("assemblies");
            let set: BTreeSet<usize> = seq.iter().cloned().collect();
            let two_forms = set.contains(&0) && set.contains(&6);
            let cid = || format!("a/subj{si}/seq{:?}", seq);
            let routes: Vec<(&str, Box<dyn Fn() -> Option<Envelope> + '_>)> = vec![
                ("add_assertion_envelope", Box::new(|| { let mut e = s.clone(); for i in seq { e = e.add_assertion_envelope(penv[*i].clone()).ok()? } Some(e) })),
                ("add_assertions", Box::new(|| { let v: Vec<Envelope> = seq.iter().map(|i| penv[*i].clone()).collect(); Some(s.add_assertions(&v)) })),
                ("add_assertion_envelopes", Box::new(|| { let v: Vec<Envelope> = seq.iter().map(|i| penv[*i].clone()).collect(); s.add_assertion_envelopes(&v).ok() })),
            ];
            for (rn, f) in routes {
                match catch(|| f()) {
                    Err(p) => acc.viol(format!("C07|{rn}|panic|{}", p.loc), p.msg.clone(), cid(), json!({})),
                    Ok(None) => acc.viol(format!("C07|{rn}|refused"), "adding a valid assertion element was refused", cid(), json!({})),
                    Ok(Some(e)) => {
                        let want = M::Node(Box::new(sm.clone()), { let mut v = vec![]; for i in &set { if !(two_forms && *i == 6) { v.push(pool[*i].1.clone()) } } v });
                        if bind::dg(&e) != want.digest() { acc.viol(format!("C07|{rn}|digest"), "digest differs from the model digest of subject + assertion set", cid(), json!({"set": set.iter().map(|i| pool[*i].0).collect::<Vec<_>>()})) }
                        if two_forms { acc.inc("sets_with_two_forms_of_one_digest_checked_for_digest_only"); continue }
                        let b = e.to_cbor_data();
                        if let Some(mb) = want.encode() { if mb != b { acc.viol(format!("C07|{rn}|bytes-vs-model"), "bytes differ from the encoding of the model node", cid(), json!({"got": hex::encode(&b)})) } }
                        match by_set.get(&set) {
                            None => { by_set.insert(set.clone(), (b, seq.clone())); }
                            Some((b0, seq0)) => if *b0 != b { acc.viol(format!("C07|{rn}|order-dependent-bytes"), "the same assertion set added in another order / repetition gives different bytes", cid(), json!({"sequence_a": seq0, "sequence_b": seq, "pool": pool.iter().map(|x| x.0).collect::<Vec<_>>()})) },
                        }
                    }
                }
            }
        }
        for k in by_set.keys() { acc.nontrivial(&(si, k.iter().cloned().collect::<Vec<_>>())) }
        if si == (ctx.seed as usize % 5) { acc.sample(json!({"subject": sm.show(), "pool": pool.iter().map(|x| format!("{}={}", x.0, x.1.show())).collect::<Vec<_>>(), "sequences": seqs.len(), "longest": seqs.last()})) }
        acc
    }).reduce(Acc::new, Acc::merge)
}

/// (b),(c),(d): algebraic laws at every state of the operation-sequence exploration
fn part_b(depth: usize, roots_w: usize) -> (explore::Stats, Acc) {
    let mut rm = families::plain(roots_w); rm.extend(families::decode_only());
    let roots = explore::roots_from(&rm);
    let p = explore::pool();
    let probes: Vec<(&'static str, Envelope)> = p.items.iter().filter(|(n, _)| ["a1", "a2", "a3", "a1d", "a4"].contains(n)).cloned().collect();
    let on_state = move |e: &Envelope, desc: &dyn Fn() -> String, acc: &mut Acc| {
        let b = e.to_cbor_data();
        let present: HashSet<_> = e.assertions().iter().map(bind::dg).collect();
        for (n, x) in &probes {
            acc.inc("law_checks");
            if present.contains(&bind::dg(x)) {
                match catch(|| e.add_assertion_envelope(x.clone())) {
                    // present IN THE SAME FORM: nothing may change. Present only in another form of the same digest (an elided, encrypted or
                    // compressed placeholder): the statement does not say which form survives - same digest and same number of assertions
                    Ok(Ok(r)) => {
                        let xd = bind::dg(x); let xo = bind::observe(x);
                        let same_form = e.assertions().iter().filter(|a| bind::dg(a) == xd).any(|a| bind::observe(a) == xo);
                        if same_form { if r.to_cbor_data() != b { acc.viol("C07|add-present|changed", "adding an assertion already present changed the envelope", format!("b/{}/add-present({n})", desc()), json!({"envelope": hex::encode(&b)})) } else { acc.inc("add_present_noop") } }
                        else if bind::dg(&r) != bind::dg(e) || r.assertions().len() != e.assertions().len() { acc.viol("C07|add-present|other-form|digest-or-count-changed", "adding an assertion whose digest is already present in another form changed the digest or the number of assertions", format!("b/{}/add-present({n})", desc()), json!({"envelope": hex::encode(&b)})) }
                        else { acc.inc("add_present_other_form_digest_kept") }
                    }
                    Ok(Err(_)) => acc.viol("C07|add-present|refused", "adding an assertion already present was refused", format!("b/{}/add-present({n})", desc()), json!({"envelope": hex::encode(&b)})),
                    Err(_) => acc.inc("panics_counted_under_C16"),
                }
            } else {
                match catch(|| e.add_assertion_envelope(x.clone()).map(|r| r.remove_assertion(x.clone()))) {
                    Ok(Ok(r)) => if r.to_cbor_data() != b { acc.viol("C07|add-remove|not-restored", "removing an assertion just added does not restore the previous envelope", format!("b/{}/add-remove({n})", desc()), json!({"envelope": hex::encode(&b), "after": hex::encode(r.to_cbor_data())})) } else { acc.inc("add_remove_restored") },
                    Ok(Err(_)) => acc.inc("add_refused"),
                    Err(_) => acc.inc("panics_counted_under_C16"),
                }
            }
        }
        // removing any assertion of the state yields exactly the node without it; removing the last one yields the bare subject
        if let bind::O::Node(_, so, ao) = bind::observe(e) {
            let present = e.assertions();
            for (xi, x) in present.iter().enumerate().take(6) {
                acc.inc("law_checks");
                let rest: Vec<bind::O> = ao.iter().enumerate().filter(|(j, _)| *j != xi).map(|(_, y)| y.clone()).collect();
                let want: Option<bind::O> = if rest.is_empty() { Some((*so).clone()) } else {
                    match (so.to_model(), rest.iter().map(|y| y.to_model()).collect::<Option<Vec<_>>>()) { (Some(sm), Some(rm)) => Some(bind::expected(&M::Node(Box::new(sm), rm))), _ => None } };
                if let (Some(want), Ok(r)) = (want, catch(|| e.remove_assertion(x.clone()))) {
                    if bind::observe(&r) != want { acc.viol(format!("C07|remove|{}", if rest.is_empty() { "last-one-does-not-yield-the-bare-subject" } else { "not-the-node-without-it" }), "removing an assertion does not give the envelope without that assertion", format!("b/{}/remove-assertion{xi}", desc()), json!({"envelope": hex::encode(&b), "after": hex::encode(r.to_cbor_data())})) } else { acc.inc("remove_matches_model") }
                }
            }
        }
        // replace_subject moves the assertions onto the new subject: the same information assembled by adding them one by one must be identical
        for (sn, ns) in [("leaf", Envelope::new("s2")), ("node", Envelope::new("s3").add_assertion("q", "r")), ("node-sharing-an-assertion", Envelope::new("s4").add_assertion("p1", "o1"))] {
            acc.inc("law_checks");
            let by_add = catch(|| { let mut r = ns.clone(); for x in e.assertions() { r = r.add_assertion_envelope(x).ok()? } Some(r) });
            if let (Ok(Some(want)), Ok(got)) = (by_add, catch(|| e.replace_subject(ns.clone()))) {
                if got.to_cbor_data() != want.to_cbor_data() { acc.viol(format!("C07|replace_subject|{sn}|differs-from-adding-one-by-one"), "replace_subject onto a new subject gives another envelope than adding the same assertions to that subject one by one", format!("b/{}/replace_subject({sn})", desc()), json!({"envelope": hex::encode(&b), "got": crate::report::ff(&got), "want": crate::report::ff(&want)})) }
            }
        }
        // the conditional / optional adders are the plain add or the identity
        {
            let a = Envelope::new_assertion("cp", "co");
            let laws = catch(|| {
                let mut bad: Vec<&'static str> = vec![];
                let plain = e.add_assertion("cp", "co").to_cbor_data();
                let same = |x: &Envelope| x.to_cbor_data() == b;
                if e.add_assertion_if(true, "cp", "co").to_cbor_data() != plain { bad.push("add_assertion_if(true)") }
                if !same(&e.add_assertion_if(false, "cp", "co")) { bad.push("add_assertion_if(false)") }
                if e.add_assertion_envelope_if(true, a.clone()).map(|x| x.to_cbor_data()).ok() != Some(plain.clone()) { bad.push("add_assertion_envelope_if(true)") }
                if !e.add_assertion_envelope_if(false, a.clone()).map(|x| same(&x)).unwrap_or(false) { bad.push("add_assertion_envelope_if(false)") }
                if !same(&e.add_nonempty_string_assertion("cp", "")) { bad.push("add_nonempty_string_assertion(empty)") }
                if e.add_nonempty_string_assertion("cp", "co").to_cbor_data() != plain { bad.push("add_nonempty_string_assertion(non-empty)") }
                if !e.add_optional_assertion_envelope(None).map(|x| same(&x)).unwrap_or(false) { bad.push("add_optional_assertion_envelope(None)") }
                if e.add_optional_assertion_envelope(Some(a.clone())).map(|x| x.to_cbor_data()).ok() != Some(plain.clone()) { bad.push("add_optional_assertion_envelope(Some)") }
                if !e.add_optional_assertion_envelope_salted(None, true).map(|x| same(&x)).unwrap_or(false) { bad.push("add_optional_assertion_envelope_salted(None)") }
                if e.add_optional_assertion_envelope_salted(Some(a.clone()), false).map(|x| x.to_cbor_data()).ok() != Some(plain.clone()) { bad.push("add_optional_assertion_envelope_salted(Some,false)") }
                if !same(&e.add_optional_assertion("cp", None::<&str>)) { bad.push("add_optional_assertion(None)") }
                if e.add_optional_assertion("cp", Some("co")).to_cbor_data() != plain { bad.push("add_optional_assertion(Some)") }
                if e.add_assertion_envelopes(&[a.clone()]).map(|x| x.to_cbor_data()).ok() != Some(plain.clone()) { bad.push("add_assertion_envelopes") }
                if e.add_assertions(&[a.clone()]).to_cbor_data() != plain { bad.push("add_assertions") }
                bad
            });
            acc.add("law_checks", 14);
            match laws { Ok(bad) => for x in bad { acc.viol(format!("C07|adder-variant|{x}"), format!("{x} is neither the plain add nor the identity"), format!("b/{}/{x}", desc()), json!({"envelope": hex::encode(&b)})) }, Err(_) => acc.inc("panics_counted_under_C16") }
        }
        acc.inc("law_checks");
        match catch(|| e.wrap_envelope().unwrap_envelope()) {
            Ok(Ok(r)) => if r.to_cbor_data() != b { acc.viol("C07|wrap-unwrap|differs", "unwrap(wrap(e)) differs from e", format!("b/{}/wrap-unwrap", desc()), json!({"envelope": hex::encode(&b)})) },
            Ok(Err(_)) => acc.viol("C07|wrap-unwrap|refused", "unwrap(wrap(e)) failed", format!("b/{}/wrap-unwrap", desc()), json!({"envelope": hex::encode(&b)})),
            Err(_) => acc.inc("panics_counted_under_C16"),
        }
    };
    let ops_ = explore::ops_full();
    let (st, mut acc) = explore::explore(&roots, &ops_, depth, &on_state, &|_, _, _, _, _| {}, Some("C07|receiver-mutated"));
    acc.outcomes.clear();
    (st, acc)
}

/// (e) unordered collections as subject / predicate / object: every insertion order, each in a fresh collection instance
fn part_e(maxn: usize) -> Acc {
    let alphabet: Vec<i64> = vec![1, -1, 24, 1000, 65536, -70000];
    let mut acc = Acc::new();
    let place = |acc: &mut Acc, kind: &str, label: &str, mk: &dyn Fn(&[i64]) -> Vec<Envelope>, perms: &[Vec<i64>], ordered: bool| {
        // mk builds [as-subject, as-predicate, as-object] from one insertion order
        let mut first: Option<Vec<Vec<u8>>> = None;
        let mut distinct: HashSet<Vec<u8>> = HashSet::new();
        for p in perms {
            acc.inc("collection_instances");
            match catch(|| mk(p)) {
                Err(pn) => { acc.viol(format!("C07|{kind}|panic|{}", pn.loc), pn.msg.clone(), format!("e/{kind}/{label}/{:?}", p), json!({})); }
                Ok(envs) => {
                    let bs: Vec<Vec<u8>> = envs.iter().map(|e| e.to_cbor_data()).collect();
                    distinct.insert(bs[0].clone());
                    match &first {
                        None => first = Some(bs),
                        Some(f) => if !ordered && *f != bs {
                            acc.viol(format!("C07|{kind}|order-dependent"), format!("equal {kind} values built in different insertion orders give different bytes / digests"), format!("e/{kind}/{label}/{:?}", p), json!({"order_a": perms[0], "order_b": p, "bytes_a": hex::encode(&f[0]), "bytes_b": hex::encode(&bs[0])}));
                        },
                    }
                }
            }
        }
        if ordered && perms.len() > 1 && distinct.len() != perms.len() { acc.viol(format!("C07|{kind}|comparator-vacuous"), "different Vec orders gave equal bytes (the comparison would be vacuous)", format!("e/{kind}/{label}"), json!({})); }
        acc.nontrivial(&(kind.to_string(), label.to_string()));
    };
    for n in 2..=maxn {
        for combo in crate::gen::combos(alphabet.len(), n) {
            let vals: Vec<i64> = combo.iter().map(|i| alphabet[*i]).collect();
            let perms: Vec<Vec<i64>> = (0..families::factorial(n)).map(|pi| families::nth_perm(n, pi).into_iter().map(|j| vals[j]).collect()).collect();
            let label = format!("{:?}", vals);
            let three = |e: Envelope| vec![e.clone(), Envelope::new("s").add_assertion(e.clone(), "o"), Envelope::new("s").add_assertion("p", e)];
            place(&mut acc, "Vec", &label, &|p| three(Envelope::new(p.to_vec())), &perms, true);
            place(&mut acc, "HashSet", &label, &|p| { let mut s: HashSet<i64> = HashSet::new(); for x in p { s.insert(*x); } three(Envelope::new(s)) }, &perms, false);
            place(&mut acc, "HashMap", &label, &|p| { let mut s: HashMap<i64, String> = HashMap::new(); for x in p { s.insert(*x, format!("v{x}")); } three(Envelope::new(s)) }, &perms, false);
            place(&mut acc, "dcbor::Map", &label, &|p| { let mut s = Map::new(); for x in p { s.insert(*x, format!("v{x}")); } three(Envelope::new(s)) }, &perms, false);
            place(&mut acc, "dcbor::Set", &label, &|p| { let mut s = Set::new(); for x in p { s.insert(*x); } three(Envelope::new(s)) }, &perms, false);
        }
    }
    acc
}

/// (f) the same laws on nodes with 22 .. 256 assertions (array heads, any size-dependent path in the duplicate check or the sort)
fn part_f(th: bool) -> Acc {
    let shapes: Vec<(String, M)> = families::wide_all(th).into_iter().filter(|(n, _)| n.starts_with("node-") || n.starts_with("sweep-node-") || n == "wide-node-as-object").chain(families::valued_multi()).collect();
    shapes.par_iter().with_max_len(1).map(|(wn, m)| {
        let mut acc = Acc::new();
        let (sm, am) = match m { M::Node(s, a) => ((**s).clone(), a.clone()), _ => return acc };
        let Ok(e) = catch(|| bind::build(m, 0)) else { return acc };
        let want = m.encode().unwrap(); let n = am.len();
        let aenv: Vec<Envelope> = am.iter().map(|a| bind::build(a, 0)).collect();
        let cid = |what: &str, i: usize| format!("wide/{wn}/{what}/{i}");
        let det = |r: &Envelope| json!({"shape": wn, "assertions_expected": n, "assertions_got": r.assertions().len()});
        // every present assertion re-added through each API: no change
        for (i, a) in aenv.iter().enumerate() {
            // quick tier: for nodes with more than 24 assertions the first eight, the last eight and every (n/8)-th one
            if !th && n > 24 && !(i < 8 || i + 8 >= n || i % (n / 8) == 0) { continue }
            acc.inc("law_checks");
            let rs: Vec<(&str, Option<Envelope>)> = vec![
                ("add_assertion_envelope", catch(|| e.add_assertion_envelope(a.clone()).ok()).ok().flatten()),
                ("add_assertion_envelope_salted-false", catch(|| e.add_assertion_envelope_salted(a.clone(), false).ok()).ok().flatten()),
                ("add_optional_assertion_envelope", catch(|| e.add_optional_assertion_envelope(Some(a.clone())).ok()).ok().flatten()),
                ("add_assertions", catch(|| Some(e.add_assertions(&[a.clone()]))).ok().flatten()),
            ];
            for (api, r) in rs { match r {
                None => acc.viol(format!("C07|wide|{api}|re-add-refused"), "re-adding a present assertion was refused or panicked", cid(api, i), json!({"shape": wn})),
                Some(r) => if r.to_cbor_data() != want { acc.viol(format!("C07|wide|{api}|re-add-changes"), "adding an assertion that is already present changed the envelope", cid(api, i), det(&r)) },
            } }
            // remove, then add back: the same envelope; remove twice: the same as once
            acc.inc("law_checks");
            if let Ok(rm) = catch(|| e.remove_assertion(a.clone())) {
                let mut rest = am.clone(); rest.remove(i);
                let want_rm = if rest.is_empty() { sm.clone() } else { M::Node(Box::new(sm.clone()), rest) };
                if Some(rm.to_cbor_data()) != want_rm.encode() { acc.viol("C07|wide|remove|not-the-model-result", "removing one assertion does not give subject + the remaining set", cid("remove", i), det(&rm)) }
                if let Ok(Ok(back)) = catch(|| rm.add_assertion_envelope(a.clone())) { if back.to_cbor_data() != want { acc.viol("C07|wide|remove-add|differs", "remove then add does not restore the envelope", cid("remove-add", i), det(&back)) } }
                if let Ok(rm2) = catch(|| rm.remove_assertion(a.clone())) { if rm2.to_cbor_data() != rm.to_cbor_data() { acc.viol("C07|wide|remove-twice|differs", "removing an absent assertion changed the envelope", cid("remove-twice", i), det(&rm2)) } }
            } else { acc.viol("C07|wide|remove|panic", "remove_assertion panicked", cid("remove", i), json!({"shape": wn})) }
        }
        // forward order followed by the reverse order (every assertion twice), rotations with repetition: the model bytes
        let s0 = bind::build(&sm, 0);
        for (label, order) in [("forward+reverse", (0..n).chain((0..n).rev()).collect::<Vec<_>>()), ("reverse+forward", (0..n).rev().chain(0..n).collect()), ("interleaved-twice", (0..2 * n).map(|k| (k * 7 + k / n) % n).chain(0..n).collect())] {
            acc.inc("assemblies");
            let r = catch(|| { let mut x = s0.clone(); for i in &order { x = x.add_assertion_envelope(aenv[*i].clone()).unwrap() } x });
            match r { Ok(r) => if r.to_cbor_data() != want { acc.viol("C07|wide|repetition|order-dependent-bytes", "the same assertion set added with repetition gives other bytes than the model encoding", cid(label, 0), det(&r)) } else { acc.nontrivial(&(wn.clone(), label)) },
                Err(pn) => acc.viol(format!("C07|wide|panic|{}", pn.site), pn.msg.clone(), cid(label, 0), json!({"shape": wn})) }
            acc.inc("assemblies");
            let v: Vec<Envelope> = order.iter().map(|i| aenv[*i].clone()).collect();
            if let Ok(r) = catch(|| s0.add_assertions(&v)) { if r.to_cbor_data() != want { acc.viol("C07|wide|add_assertions|order-dependent-bytes", "add_assertions with repetition gives other bytes than the model encoding", cid(label, 1), det(&r)) } }
        }
        // replace_subject keeps the set; replace_assertion(a, a) is the identity
        acc.inc("law_checks");
        if let Ok(r) = catch(|| e.replace_subject(Envelope::new("other"))) { let wm = M::Node(Box::new(M::Leaf(V::Text("other".into()))), am.clone()); if Some(r.to_cbor_data()) != wm.encode() { acc.viol("C07|wide|replace_subject|not-the-model-result", "replace_subject does not give the new subject with the same assertion set", cid("replace_subject", 0), det(&r)) } }
        for i in [0, n / 2, n - 1] { if let Ok(Ok(r)) = catch(|| e.replace_assertion(aenv[i].clone(), aenv[i].clone())) { if r.to_cbor_data() != want { acc.viol("C07|wide|replace-same|differs", "replacing an assertion by itself changed the envelope", cid("replace-same", i), det(&r)) } } }
        acc
    }).reduce(Acc::new, Acc::merge)
}

pub fn run(ctx: &Ctx) -> i32 {
    let th = ctx.tier.thorough();
    let maxlen = if th { 6 } else { 5 };
    let mut acc = part_a(ctx, maxlen);
    let depth = if th { 4 } else { 3 };
    let (st, accb) = part_b(depth, 3);
    acc = acc.merge(accb);
    let maxn = if th { 5 } else { 4 };
    acc = acc.merge(part_e(maxn));
    acc = acc.merge(part_f(th));
    let evals = acc.get("assemblies") * 3 + acc.get("law_checks") + acc.get("collection_instances");
    let cov = json!({"states": st.states, "transitions": st.transitions, "traces_validated_against_impl": st.sequences + acc.get("assemblies") * 3,
        "evaluations": evals,
        "rule": "(b') an assertion present only in ANOTHER FORM of the same digest (placeholder vs plain): adding it keeps digest and count, which form survives is left open; (f) on nodes with 1..72 (thorough 140) and 127..256 assertions: re-adding each present assertion (quick tier, beyond 24 assertions: the first eight, the last eight and every (n/8)-th) through four APIs, remove / remove-add / remove-twice for each, three repetition orders, replace_subject, replace by itself - all against the model bytes; (a) every insertion sequence (with repetition) up to the length bound over a 7-element assertion pool x 5 subjects x 3 add APIs, grouped by assertion set: all members byte-identical and equal to the model encoding; (b-d) add-present / add-remove / wrap-unwrap laws and receiver immutability at every state of the BFS; (e) collections in every insertion order in fresh instances; distinct = (subject, assertion set) / (collection type, contents)",
        "exhaustive": true,
        "bounds": {"insertion_sequence_length": maxlen, "pool": 7, "bfs_depth": depth, "collection_elements": maxn},
        "bfs": {"states_per_depth": st.per_depth, "merged": st.merged, "refused": st.refused, "complete_sequences": st.sequences},
        "unowned_choice": "HashSet/HashMap iteration order depends on per-instance SipHash keys that cannot be injected; every insertion order is built in a fresh instance, so an order-dependent encoder shows up as a disagreement between instances (probability of missing it on every enumerated collection is negligible, but it is not an enumeration of orders)"});
    finish(ctx, acc, "model_checking", cov, vec!["a set containing two FORMS of one assertion (plain and elided, same digest) is checked for digest equality only: which form survives depends on which was added first, and the statement speaks of the same set of assertions".into()])
}
