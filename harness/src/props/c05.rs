//! C05 - serialisation round-trips exactly (DESIGN section 4, C05).
use crate::bind::{self, Route};
use crate::families;
use crate::refmodel::dcbor::V;
use crate::refmodel::tree::{M, D};
use crate::report::{Acc, Ctx, catch, finish};
use bc_envelope::prelude::*;
use rayon::prelude::*;
use serde_json::json;

pub fn leaf_shapes(l: &M) -> Vec<(&'static str, M)> {
    let t = |s: &str| M::Leaf(V::Text(s.into()));
    vec![
        ("subject", l.clone()),
        ("node-subject", M::Node(Box::new(l.clone()), vec![M::Assertion(Box::new(t("p")), Box::new(t("o")))])),
        ("predicate", M::Node(Box::new(t("s")), vec![M::Assertion(Box::new(l.clone()), Box::new(t("o")))])),
        ("object", M::Node(Box::new(t("s")), vec![M::Assertion(Box::new(t("p")), Box::new(l.clone()))])),
        ("wrapped", M::Wrapped(Box::new(l.clone()))),
        ("assertion-on-assertion", M::Node(Box::new(t("s")), vec![M::Node(Box::new(M::Assertion(Box::new(t("p")), Box::new(t("o")))), vec![M::Assertion(Box::new(t("q")), Box::new(l.clone()))])])),
    ]
}
/// the round-trip oracle for one envelope; `class` names the leaf class or obscuration kind for the signature
pub fn roundtrip(acc: &mut Acc, e: &Envelope, model_bytes: Option<Vec<u8>>, class: &str, with_ur: bool, cid: &dyn Fn() -> String) {
    acc.inc("roundtrips");
    let o = bind::observe(e);
    let b = e.to_cbor_data();
    if let Some(mb) = model_bytes { if mb != b { acc.viol(format!("C05|{}|{class}|bytes-vs-model", o.case_name()), "encoding differs from the CDDL encoding of the model", cid(), json!({"got": hex::encode(&b), "want": hex::encode(mb)})) } }
    match catch(|| Envelope::try_from_cbor_data(b.clone())) {
        Err(p) => acc.viol(format!("C05|{}|{class}|decode-panic|{}", o.case_name(), p.loc), p.msg.clone(), cid(), json!({"bytes": hex::encode(&b)})),
        Ok(Err(er)) => acc.viol(format!("C05|{}|{class}|decode-error", o.case_name()), format!("decoding the library's own encoding fails: {er}"), cid(), json!({"bytes": hex::encode(&b)})),
        Ok(Ok(e2)) => {
            let o2 = bind::observe(&e2);
            if let Some((path, what)) = o.first_diff(&o2, "") { acc.viol(format!("C05|{}|{class}|structure", o.case_name()), format!("decoded envelope differs at {path}: {what}"), cid(), json!({"bytes": hex::encode(&b)})) }
            if !e2.is_identical_to(e) || !e.is_identical_to(&e2) { acc.viol(format!("C05|{}|{class}|not-identical", o.case_name()), "decoded envelope is not is_identical_to the original", cid(), json!({"bytes": hex::encode(&b)})) }
            if e2.to_cbor_data() != b { acc.viol(format!("C05|{}|{class}|reencode", o.case_name()), "re-encoding differs", cid(), json!({"bytes": hex::encode(&b), "reencoded": hex::encode(e2.to_cbor_data())})) }
        }
    }
    // the value-level entry point
    match catch(|| Envelope::try_from_cbor(e.tagged_cbor())) {
        Ok(Ok(e4)) => if bind::observe(&e4) != o { acc.viol(format!("C05|{}|{class}|try_from_cbor-differs", o.case_name()), "try_from_cbor(tagged_cbor()) differs", cid(), json!({"bytes": hex::encode(&b)})) },
        Ok(Err(er)) => acc.viol(format!("C05|{}|{class}|try_from_cbor-error", o.case_name()), format!("{er}"), cid(), json!({"bytes": hex::encode(&b)})),
        Err(p) => acc.viol(format!("C05|{}|{class}|try_from_cbor-panic|{}", o.case_name(), p.site), p.msg.clone(), cid(), json!({})),
    }
    if with_ur {
        acc.inc("ur_roundtrips");
        match catch(|| { let s = e.ur_string(); Envelope::from_ur_string(&s).map(|x| (s, x)) }) {
            Err(p) => acc.viol(format!("C05|{}|{class}|ur-panic|{}", o.case_name(), p.loc), p.msg.clone(), cid(), json!({"bytes": hex::encode(&b)})),
            Ok(Err(er)) => acc.viol(format!("C05|{}|{class}|ur-error", o.case_name()), format!("UR string does not parse back: {er}"), cid(), json!({"bytes": hex::encode(&b)})),
            Ok(Ok((s, e3))) => {
                if bind::observe(&e3) != o || e3.to_cbor_data() != b { acc.viol(format!("C05|{}|{class}|ur-differs", o.case_name()), "UR round trip differs", cid(), json!({"ur": s})) }
            }
        }
    }
}

pub fn run(ctx: &Ctx) -> i32 {
    let th = ctx.tier.thorough();
    let w = if th { 8 } else { 7 };
    let leaves = families::leaf_alphabet();
    let mut acc = leaves.par_iter().enumerate().with_max_len(1).map(|(li, v)| {
        let mut acc = Acc::new();
        for (sn, m) in leaf_shapes(&M::Leaf(v.clone())) {
            let cid = || format!("leaf{li}/{sn}");
            match catch(|| bind::build(&m, 0)) {
                Ok(e) => {
                    roundtrip(&mut acc, &e, m.encode(), "leaf", true, &cid);
                    // and with the leaf elided / encrypted / compressed in place
                    let t = bind::dset(&[M::Leaf(v.clone()).digest()]);
                    for (kind, action) in super::c02::actions() { if let Ok(r) = catch(|| e.elide_removing_set_with_action(&t, &action)) { roundtrip(&mut acc, &r, None, &format!("leaf-{kind:?}"), false, &|| format!("leaf{li}/{sn}/{kind:?}")) } }
                }
                Err(p) => acc.viol(format!("C05|build-panic|{}", p.loc), p.msg.clone(), cid(), json!({"model": m.show()})),
            }
        }
        acc.nontrivial(&crate::refmodel::dcbor::bytes(v));
        if li % 17 == (ctx.seed as usize % 17) { acc.sample(json!({"leaf": crate::refmodel::dcbor::show(v), "encoding": hex::encode(crate::refmodel::dcbor::bytes(v)), "positions": 6})) }
        acc
    }).reduce(Acc::new, Acc::merge);
    if std::env::var("VH_DEBUG").is_ok() { eprintln!("leaves done {:?}", ctx.t0.elapsed()); }
    let mut trees = families::plain(w);
    let nbuilt = trees.len();
    trees.extend(families::decode_only()); trees.extend(families::nsn()); trees.extend(families::valued()); trees.extend(families::decorated_obscured());
    let acc2 = trees.par_iter().enumerate().with_max_len(1).map(|(ti, m)| {
        let mut acc = Acc::new();
        acc.inc("trees");
        let e = if ti < nbuilt { bind::build(m, 0) } else { bind::build_route(m, Route::Decode) };
        roundtrip(&mut acc, &e, m.encode(), "plain", true, &|| format!("tree{ti}"));
        let mut ds: Vec<D> = m.distinct_digests(); ds.push(families::absent_digest());
        let k = ds.len();
        for mask in families::masks(k).into_iter().skip(1) {
            let t: Vec<D> = (0..k).filter(|i| mask >> i & 1 == 1).map(|i| ds[i]).collect();
            let tset = bind::dset(&t);
            for revealing in [false, true] {
                for (kind, action) in super::c02::actions() {
                    if let Ok(r) = catch(|| e.elide_set_with_action(&tset, revealing, &action)) {
                        acc.nontrivial(&(ti, mask, revealing, kind));
                        roundtrip(&mut acc, &r, None, &format!("{kind:?}"), mask.count_ones() == 1 && !revealing, &|| format!("tree{ti}/mask{mask}/rev{}/{kind:?}", revealing as u8));
                    }
                }
            }
        }
        acc
    }).reduce(Acc::new, Acc::merge);
    acc = acc.merge(acc2);
    if std::env::var("VH_DEBUG").is_ok() { eprintln!("trees done {:?}", ctx.t0.elapsed()); }
    let wide = families::wide_all(th);
    let aw = wide.par_iter().enumerate().with_max_len(1).map(|(wi, (wn, m))| {
        let mut acc = Acc::new();
        let Ok(e) = catch(|| bind::build(m, 0)) else { acc.viol("C05|wide|build-panic", "panic building a wide shape", format!("wide/{wn}"), json!({})); return acc };
        let small = m.encode().map(|b| b.len() < 4096).unwrap_or(false);
        roundtrip(&mut acc, &e, m.encode(), "wide", small, &|| format!("wide/{wn}"));
        let ds = m.distinct_digests();
        for (di, d) in ds.iter().enumerate().filter(|(i, _)| *i < 5 || i % 101 == 0) { for (kind, action) in super::c02::actions() {
            if let Ok(r) = catch(|| e.elide_removing_set_with_action(&bind::dset(&[*d]), &action)) { roundtrip(&mut acc, &r, None, &format!("wide-{kind:?}"), false, &|| format!("wide/{wn}/target{di}/{kind:?}")) }
        } }
        acc.nontrivial(&("wide", wi));
        acc
    }).reduce(Acc::new, Acc::merge);
    acc = acc.merge(aw);
    if std::env::var("VH_DEBUG").is_ok() { eprintln!("wide done {:?}", ctx.t0.elapsed()); }
    // every envelope an operation SEQUENCE produces round-trips too (the families above are built by the constructors only): breadth-first to
    // depth 2 over the full operation alphabet of C04, from the small trees, the decode-only shapes and the rich roots
    {
        let mut rm = families::plain(3); rm.extend(families::decode_only());
        let roots = crate::explore::roots_from(&rm);
        let on_state = |e: &Envelope, desc: &dyn Fn() -> String, acc: &mut Acc| { roundtrip(acc, e, None, "reached-by-operations", false, &|| format!("bfs/{}", desc())); };
        let (st, ab) = crate::explore::explore(&roots, &crate::explore::ops_full(), if th { 3 } else { 2 }, &on_state, &|_, _, _, _, _| {}, None);
        acc = acc.merge(ab); acc.add("bfs_states_round_tripped", st.states as u64);
    }
    let evals = acc.get("roundtrips");
    let cov = json!({"evaluations": evals,
        "rule": "(all subsets for envelopes with at most 10 distinct digests - every tree of the weight-bounded families; for the hand-built decode-only shapes with more, the empty / singleton / pair / full target sets) case = an envelope (leaf value x position, or tree x obscuration pattern) encoded, decoded, compared position by position, re-encoded; UR round trip on leaves, plain trees and single-target patterns; distinct = (tree, subset, mode, action) or leaf encoding",
        "exhaustive": true, "bounds": {"tree_weight": w, "leaf_alphabet": leaves.len()}});
    finish(ctx, acc, "exploration", cov, vec!["ur_string() documents register_tags() as a precondition; it is called at start-up".into()])
}
