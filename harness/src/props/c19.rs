//! C19 - attachments and types retrievable exactly (DESIGN section 4, C19).
use crate::bind;
use crate::families;
use crate::report::{Acc, Ctx, catch, finish};
use bc_envelope::prelude::*;
use bc_envelope::EnvelopeError;
use rayon::prelude::*;
use serde_json::json;

type Att = (usize, &'static str, Option<&'static str>);
fn sequences(n: usize, len: usize) -> Vec<Vec<usize>> { let mut out = vec![vec![]]; for _ in 0..len { let mut nx = vec![]; for s in &out { for i in 0..n { let mut t: Vec<usize> = s.clone(); t.push(i); nx.push(t) } } out = nx } out }

pub fn run(ctx: &Ctx) -> i32 {
    let th = ctx.tier.thorough();
    let payloads = vec![Envelope::new("pl"), Envelope::new("pl").add_assertion("a", "b"), Envelope::new("pl").wrap_envelope(), Envelope::new_assertion("pp", "po"), Envelope::new("pl2").elide(), Envelope::new("pl").wrap_envelope().wrap_envelope()];
    let corner_payloads = [Envelope::new(f64::NAN), Envelope::null().add_assertion("n", Envelope::null())];
    let payloads: Vec<Envelope> = payloads.into_iter().chain(corner_payloads).collect();
    let vendors = ["v1", "v2"]; let conf = [None, Some("c1"), Some("c2")];
    let mut atts: Vec<Att> = vec![]; for (i, _) in payloads.iter().enumerate().take(6) { for v in vendors { for c in conf { atts.push((i, v, c)) } } }
    atts.extend([(6usize, "v1", None), (7, "v2", Some("c1"))]);
    // value-dependent corners: empty strings, case and padding differences (filters must compare whole strings exactly)
    atts.extend([(0usize, "", None), (0, "v1", Some("")), (1, "V1", Some("C1")), (0, "v1 ", Some("c1 ")), (0, "", Some(""))]);
    let att_env: Vec<Envelope> = atts.iter().map(|(pi, v, c)| Envelope::new_attachment(payloads[*pi].clone(), v, *c)).collect();
    let bases: Vec<Envelope> = families::plain(3).iter().chain(families::nsn().iter().take(2)).chain(families::valued_few().iter().step_by(15)).map(|m| bind::build(m, 0)).collect();
    let maxn = 3;
    // multisets as sequences (every order, with repetition); thorough length 3 over a reduced attachment pool
    let mut seqs: Vec<Vec<usize>> = vec![vec![]];
    // pairs: all ordered pairs of the 36 regular attachments; the value-dependent corner attachments (index >= 36) with themselves and, in both
    // orders, with six regular ones
    let regular = 36usize;
    seqs.extend(sequences(atts.len(), 1)); seqs.extend(sequences(regular, 2));
    for c in regular..atts.len() { seqs.push(vec![c, c]); for x in [0usize, 1, 2, 5, 7, 13] { seqs.push(vec![c, x]); seqs.push(vec![x, c]) } }
    if maxn >= 3 { let sub: Vec<usize> = if th { (0..atts.len()).step_by(2).collect() } else { vec![0, 1, 2, 5, 7, 13, 26, 29] }; for s in sequences(sub.len(), 3) { seqs.push(s.iter().map(|i| sub[*i]).collect()) } }
    let nbases = bases.len();
    let acc = (0..nbases).into_par_iter().with_max_len(1).map(|bi| {
        let mut acc = Acc::new();
        let base = &bases[bi];
        for (si, seq) in seqs.iter().enumerate() {
            for route in ["add_attachment", "Attachments::add_to_envelope"] {
                if route != "add_attachment" && (si % 7 != 0) { continue }
                acc.inc("attachment_sets");
                let cid = |s: &str| format!("base{bi}/seq{:?}/{route}/{s}", seq);
                let chosen: Vec<Att> = seq.iter().map(|i| atts[*i]).collect();
                let e = match catch(|| { if route == "add_attachment" { let mut e = base.clone(); for (pi, v, c) in &chosen { e = e.add_attachment(payloads[*pi].clone(), v, *c) } e } else { let mut a = Attachments::new(); for (pi, v, c) in &chosen { a.add(payloads[*pi].clone(), *v, *c) } a.add_to_envelope(base.clone()) } }) { Ok(e) => e, Err(p) => { acc.viol(format!("C19|{route}|panic|{}", p.loc), p.msg.clone(), cid("build"), json!({})); continue } };
                let mut ed: Vec<[u8; 32]> = seq.iter().map(|i| bind::dg(&att_env[*i])).collect(); ed.sort(); ed.dedup();
                // a base that is itself an assertion/known value etc. is fine; bases that already carry 'attachment' assertions do not occur
                let got = match catch(|| e.attachments()) { Ok(Ok(g)) => g, Ok(Err(er)) => { acc.viol("C19|attachments|refused", format!("attachments() failed on well-formed attachments: {er}"), cid("attachments"), json!({"envelope": crate::report::ff(&e)})); continue } Err(p) => { acc.viol(format!("C19|attachments|panic|{}", p.loc), p.msg.clone(), cid("attachments"), json!({})); continue } };
                let mut gd: Vec<[u8; 32]> = got.iter().map(bind::dg).collect(); gd.sort();
                if gd != ed { acc.viol("C19|attachments|set-differs", "attachments() does not return exactly the added attachments", cid("attachments"), json!({"envelope": crate::report::ff(&e)})) }
                for g in &got {
                    if let Some(i) = seq.iter().find(|i| bind::dg(&att_env[**i]) == bind::dg(g)) {
                        let (pi, v, c) = atts[*i];
                        if !g.attachment_payload().map(|p| p.is_identical_to(&payloads[pi]) && bind::observe(&p) == bind::observe(&payloads[pi])).unwrap_or(false) { acc.viol("C19|attachment_payload|differs", "payload is not identical to the one added", cid("payload"), json!({})) }
                        if g.attachment_vendor().ok().as_deref() != Some(v) { acc.viol("C19|attachment_vendor|differs", "vendor differs", cid("vendor"), json!({})) }
                        if g.attachment_conforms_to().ok() != Some(c.map(|x| x.to_string())) { acc.viol("C19|attachment_conforms_to|differs", "conformsTo differs", cid("conformsTo"), json!({})) }
                    }
                }
                // an attachment obscured in place and put back (replace the placeholder / compressed form by the original assertion), and an
                // attachment replaced by itself: attachments() is again exactly the added set
                for g in got.iter().take(2) {
                    acc.inc("restore_checks");
                    let t = bind::dset(&[bind::dg(g)]);
                    let forms: Vec<(&str, Option<Envelope>, Envelope)> = vec![
                        ("elided", catch(|| e.elide_removing_set(&t)).ok(), g.elide()),
                        ("compressed", catch(|| e.elide_removing_set_with_action(&t, &ObscureAction::Compress)).ok(), g.compress().unwrap_or_else(|_| g.clone())),
                        ("itself", Some(e.clone()), g.clone()),
                    ];
                    for (fname, hidden, placeholder) in forms {
                        let Some(hidden) = hidden else { continue };
                        match catch(|| hidden.replace_assertion(placeholder.clone(), g.clone()).ok().and_then(|r| r.attachments().ok())) {
                            Ok(Some(back)) => { let mut bd: Vec<[u8; 32]> = back.iter().map(bind::dg).collect(); bd.sort(); if bd != ed || back.iter().any(|x| x.is_obscured()) { acc.viol(format!("C19|restore|{fname}|set-differs"), "after putting an obscured attachment back with replace_assertion, attachments() is not the added set", cid(&format!("restore-{fname}")), json!({"envelope": crate::report::ff(&e)})) } }
                            Ok(None) => acc.viol(format!("C19|restore|{fname}|refused"), "replace_assertion or attachments() failed while putting an attachment back", cid(&format!("restore-{fname}")), json!({"envelope": crate::report::ff(&e)})),
                            Err(_) => acc.inc("panics_counted_under_C16"),
                        }
                    }
                }
                if let Ok(Ok(a)) = catch(|| Attachments::try_from_envelope(&e)) {
                    for d in &ed { if a.get(&Digest::from_data(*d)).is_none() { acc.viol("C19|Attachments::try_from_envelope|missing", "container misses an attachment", cid("container"), json!({})) } }
                    // putting the container's attachments back onto the envelope they came from, and adding the same attachments a second time
                    // through the bulk adders (in reverse order), adds nothing: the query still returns exactly the added set, each once
                    let again: Vec<(&str, Result<Envelope, crate::report::Panic>)> = vec![
                        ("Attachments::add_to_envelope-again", catch(|| a.add_to_envelope(e.clone()))),
                        ("add_assertions-again", catch(|| { let mut v = got.clone(); v.reverse(); e.add_assertions(&v) })),
                        ("add_assertion_envelopes-again", catch(|| { let mut v = got.clone(); v.reverse(); v.extend(got.iter().cloned()); e.add_assertion_envelopes(&v).unwrap_or_else(|_| e.clone()) })),
                    ];
                    for (an, r2) in again { if let Ok(e2) = r2 {
                        let n2 = e2.attachments().map(|v| { let mut d: Vec<[u8; 32]> = v.iter().map(bind::dg).collect(); d.sort(); d });
                        if n2.as_ref().ok() != Some(&ed) || bind::dg(&e2) != bind::dg(&e) { acc.viol(format!("C19|{an}|set-differs"), "adding the attachments an envelope already holds a second time changes what the attachment query returns (or the envelope)", cid(an), json!({"envelope": crate::report::ff(&e)})) }
                    } }
                }
                let corner = seq.iter().any(|i| *i >= 36);
                for fv in [None, Some("v1"), Some("v2"), Some("v3"), Some(""), Some("V1")] { for fc in [None, Some("c1"), Some("c2"), Some("c3"), Some(""), Some("C1")] {
                    // all 36 combinations when a corner attachment is present; otherwise the 16 regular ones and each corner value alone
                    let special = |x: Option<&str>| matches!(x, Some("") | Some("V1") | Some("C1"));
                    if !corner && special(fv) && special(fc) { continue }
                    if !corner && (special(fv) || special(fc)) && (fv.is_some() && fc.is_some()) { continue }
                    acc.inc("filter_queries");
                    let mut expf: Vec<[u8; 32]> = seq.iter().filter(|i| { let (_, v, c) = atts[**i]; fv.map_or(true, |x| x == v) && fc.map_or(true, |x| Some(x) == c) }).map(|i| bind::dg(&att_env[*i])).collect(); expf.sort(); expf.dedup();
                    let cidf = || cid(&format!("filter-{fv:?}-{fc:?}"));
                    match catch(|| e.attachments_with_vendor_and_conforms_to(fv, fc)) {
                        Ok(Ok(g)) => { let mut gotf: Vec<[u8; 32]> = g.iter().map(bind::dg).collect(); gotf.sort(); if gotf != expf { acc.viol(format!("C19|filter|vendor={}|conformsTo={}|differs", fv.is_some(), fc.is_some()), "filtered query does not return exactly the matching attachments", cidf(), json!({"envelope": crate::report::ff(&e), "vendor": fv, "conformsTo": fc})) } }
                        Ok(Err(er)) => acc.viol("C19|filter|refused", format!("{er}"), cidf(), json!({})),
                        Err(p) => acc.viol(format!("C19|filter|panic|{}", p.loc), p.msg.clone(), cidf(), json!({})),
                    }
                    let single = catch(|| e.attachment_with_vendor_and_conforms_to(fv, fc));
                    let ok = match (expf.len(), &single) { (1, Ok(Ok(x))) => bind::dg(x) == expf[0], (0, Ok(Err(er))) => matches!(er.downcast_ref::<EnvelopeError>(), Some(EnvelopeError::NonexistentAttachment)), (k, Ok(Err(er))) if k > 1 => matches!(er.downcast_ref::<EnvelopeError>(), Some(EnvelopeError::AmbiguousAttachment)), _ => false };
                    if !ok { acc.viol(format!("C19|single-result|matches={}", expf.len().min(2)), "single-result form: one => it, none => NonexistentAttachment, several => AmbiguousAttachment", cidf(), json!({"envelope": crate::report::ff(&e), "vendor": fv, "conformsTo": fc})) }
                } }
                acc.nontrivial(&(bi, seq.clone()));
            }
        }
        if bi == (ctx.seed as usize % nbases) { acc.sample(json!({"base": crate::report::ff(&base), "attachment_pool": atts.len(), "sequences": seqs.len(), "filters": 36})) }
        acc
    }).reduce(Acc::new, Acc::merge);
    let mut acc = acc;
    // malformed attachment assertions: each single mutation; the query must report an error
    let good = Envelope::new_attachment("pl", "v1", Some("c1"));
    let obj = good.as_object().unwrap();
    let salt = crate::explore::fixed_salt();
    let vendor_a = obj.assertion_with_predicate(known_values::VENDOR).unwrap();
    let conf_a = obj.assertion_with_predicate(known_values::CONFORMS_TO).unwrap();
    let malformed: Vec<(&str, Envelope)> = vec![
        ("vendor-removed", Envelope::new_assertion(known_values::ATTACHMENT, obj.remove_assertion(vendor_a.clone()))),
        ("vendor-duplicated", Envelope::new_assertion(known_values::ATTACHMENT, obj.add_assertion(known_values::VENDOR, "v9"))),
        ("vendor-non-text", Envelope::new_assertion(known_values::ATTACHMENT, obj.remove_assertion(vendor_a.clone()).add_assertion(known_values::VENDOR, 5))),
        ("vendor-elided", Envelope::new_assertion(known_values::ATTACHMENT, obj.elide_removing_target(&vendor_a))),
        ("conformsTo-duplicated", Envelope::new_assertion(known_values::ATTACHMENT, obj.add_assertion(known_values::CONFORMS_TO, "c9"))),
        ("conformsTo-non-text", Envelope::new_assertion(known_values::ATTACHMENT, obj.remove_assertion(conf_a.clone()).add_assertion(known_values::CONFORMS_TO, 7))),
        ("payload-not-wrapped", Envelope::new_assertion(known_values::ATTACHMENT, Envelope::new("pl").add_assertion(known_values::VENDOR, "v1"))),
        ("extra-assertion", Envelope::new_assertion(known_values::ATTACHMENT, obj.add_assertion("x", "y"))),
        ("object-elided", Envelope::new_assertion(known_values::ATTACHMENT, obj.elide())),
        ("object-a-leaf", Envelope::new_assertion(known_values::ATTACHMENT, "junk")),
        ("object-bare-wrapped", Envelope::new_assertion(known_values::ATTACHMENT, Envelope::new("pl").wrap_envelope())),
    ];
    for (name, m) in &malformed {
        for with_good in [false, true] {
            acc.inc("malformed_attachments");
            let mut e = Envelope::new("s"); if with_good { e = e.add_attachment("ok", "v1", None) }
            let e = e.add_assertion_envelope(m.clone()).unwrap();
            let cid = format!("malformed/{name}/good{}", with_good as u8);
            for fv in [None, Some("v1"), Some("v2"), Some("v3")] { for fc in [None, Some("c1"), Some("c2"), Some("c3")] {
                acc.inc("filter_queries");
                match catch(|| (e.attachments_with_vendor_and_conforms_to(fv, fc).is_ok(), e.attachment_with_vendor_and_conforms_to(fv, fc).is_ok())) {
                    Ok((false, false)) => {}
                    Ok(_) => acc.viol(format!("C19|malformed|filter|{name}|accepted"), "a malformed attachment assertion is present but a filtered query did not report it", format!("{cid}/filter-{fv:?}-{fc:?}"), json!({"envelope": crate::report::ff(&e), "vendor": fv, "conformsTo": fc})),
                    Err(p) => acc.viol(format!("C19|malformed|filter|panic|{}", p.site), p.msg.clone(), format!("{cid}/filter-{fv:?}-{fc:?}"), json!({})),
                }
            } }
            for (q, r) in [("attachments", catch(|| e.attachments().map(|v| v.len()))), ("filtered", catch(|| e.attachments_with_vendor_and_conforms_to(Some("v1"), None).map(|v| v.len()))), ("single", catch(|| e.attachment_with_vendor_and_conforms_to(Some("v1"), Some("c1")).map(|_| 1)))] {
                match r { Err(p) => acc.viol(format!("C19|malformed|{q}|panic|{}", p.loc), p.msg.clone(), cid.clone(), json!({"envelope": crate::report::ff(&e)})), Ok(Ok(n)) => acc.viol(format!("C19|malformed|{q}|{name}|accepted"), format!("a malformed attachment assertion was not reported ({n} returned)"), cid.clone(), json!({"envelope": crate::report::ff(&e)})), Ok(Err(_)) => {} }
            }
        }
    }
    // an attachment assertion that carries an assertion of its own (salted, annotated): whether that still counts as well-formed is left open,
    // but it is an 'attachment' assertion of the envelope - the queries either report it invalid or return it, they never silently leave it out
    for with_good in [false, true] {
        acc.inc("malformed_attachments");
        let dec = good.add_assertion("annotated", "yes");
        let mut e = Envelope::new("s"); if with_good { e = e.add_attachment("ok", "v1", None) }
        let e = e.add_assertion_envelope(dec.clone()).unwrap();
        match catch(|| e.attachments()) {
            Ok(Ok(v)) => if !v.iter().any(|x| bind::dg(x) == bind::dg(&dec)) { acc.viol("C19|decorated-attachment|silently-skipped", "an attachment assertion carrying an assertion of its own is neither reported invalid nor returned", format!("decorated/good{}", with_good as u8), json!({"envelope": crate::report::ff(&e)})) },
            Ok(Err(_)) => acc.inc("decorated_attachment_reported_invalid"),
            Err(p) => acc.viol(format!("C19|decorated-attachment|panic|{}", p.loc), p.msg.clone(), format!("decorated/good{}", with_good as u8), json!({})),
        }
    }
    // a type added as an assertion that carries an assertion of its own (add_assertion_salted('isA', T, true), or annotated) is a type of the envelope
    for (tn, te) in [("salted", Envelope::new("s").add_assertion_salted(known_values::IS_A, known_values::NOTE, true)), ("annotated", Envelope::new("s").add_assertion_envelope(Envelope::new_assertion(known_values::IS_A, known_values::NOTE).add_assertion("why", "w")).unwrap())] {
        acc.inc("type_sets");
        match catch(|| (te.has_type(&known_values::NOTE), te.check_type(&known_values::NOTE).is_ok(), te.has_type_envelope(known_values::NOTE), te.types().len())) {
            Ok((true, true, true, 1)) => {}
            Ok(g) => acc.viol(format!("C19|types|{tn}-type-assertion|not-reported"), format!("a type added through an assertion that carries an assertion of its own is not reported: {g:?}"), format!("types/{tn}"), json!({"envelope": crate::report::ff(&te)})),
            Err(p) => acc.viol(format!("C19|types|panic|{}", p.loc), p.msg.clone(), format!("types/{tn}"), json!({})),
        }
    }
    // the Attachments container itself: add / get / remove / clear / is_empty agree with a plain map keyed by digest
    {
        acc.inc("malformed_attachments");
        let r = catch(|| {
            let mut bad: Vec<&'static str> = vec![];
            let mut c = Attachments::new();
            if !c.is_empty() { bad.push("new-not-empty") }
            for (pi, v, cf) in atts.iter().take(6) { c.add(payloads[*pi].clone(), *v, *cf) }
            c.add(payloads[atts[0].0].clone(), atts[0].1, atts[0].2); // adding the same attachment again changes nothing
            for i in 0..6 { match c.get(&Digest::from_data(bind::dg(&att_env[i]))) { Some(x) => if !x.is_identical_to(&att_env[i]) { bad.push("get-returns-other") }, None => bad.push("get-misses") } }
            if c.get(&Digest::from_data([9u8; 32])).is_some() { bad.push("get-invents") }
            let host = c.add_to_envelope(Envelope::new("host"));
            if host.attachments().map(|v| v.len()).ok() != Some(6) { bad.push("add_to_envelope-count") }
            let back = Attachments::try_from_envelope(&host);
            if back.as_ref().map(|b| (0..6).all(|i| b.get(&Digest::from_data(bind::dg(&att_env[i]))).is_some())).ok() != Some(true) { bad.push("try_from_envelope-misses") }
            if c.remove(&Digest::from_data(bind::dg(&att_env[2]))).map(|x| x.is_identical_to(&att_env[2])) != Some(true) { bad.push("remove-returns-other") }
            if c.get(&Digest::from_data(bind::dg(&att_env[2]))).is_some() { bad.push("remove-does-not-remove") }
            if c.remove(&Digest::from_data(bind::dg(&att_env[2]))).is_some() { bad.push("remove-twice") }
            c.clear(); if !c.is_empty() { bad.push("clear-not-empty") }
            bad
        });
        match r { Ok(b) => for x in b { acc.viol(format!("C19|Attachments-container|{x}"), "the Attachments container does not behave like a map keyed by attachment digest", format!("container/{x}"), json!({})) }, Err(p) => acc.viol(format!("C19|Attachments-container|panic|{}", p.site), p.msg.clone(), "container", json!({})) }
    }
    // a decorated (salted) but otherwise valid attachment assertion: panics are C16's; if it answers, it must not invent attachments
    { acc.inc("malformed_attachments"); let e = Envelope::new("s").add_assertion_envelope(good.add_salt_instance(salt)).unwrap(); if let Ok(Ok(v)) = catch(|| e.attachments()) { if v.len() > 1 { acc.viol("C19|decorated|invented", "more attachments than added", "decorated", json!({})) } } }
    // types: every subset of 3 known-value types and 2 text types, every type queried
    let kvt = [known_values::NOTE, known_values::ENTITY, KnownValue::new(777)];
    let txt = ["T1", "T2"];
    for mask in 0u32..32 {
        let mut e = Envelope::new("typed").add_assertion("other", "assertion");
        for i in 0..3 { if mask >> i & 1 == 1 { e = e.add_type(kvt[i].clone()) } }
        for i in 0..2 { if mask >> (3 + i) & 1 == 1 { e = e.add_type(txt[i]) } }
        for i in 0..3 {
            acc.inc("type_queries");
            let exp = mask >> i & 1 == 1;
            let cid = format!("types/mask{mask}/kv{i}");
            match catch(|| (e.has_type(&kvt[i]), e.check_type(&kvt[i]).is_ok(), e.has_type_envelope(kvt[i].clone()), e.check_type_envelope(kvt[i].clone()).is_ok())) { Ok((a, b, c, d)) => if a != exp || b != exp || c != exp || d != exp { acc.viol(format!("C19|types|known-value|expected-{exp}"), "a type check disagrees with the set of added types", cid, json!({"envelope": crate::report::ff(&e)})) }, Err(p) => acc.viol(format!("C19|types|panic|{}", p.loc), p.msg.clone(), cid, json!({})) }
        }
        for i in 0..2 {
            acc.inc("type_queries");
            let exp = mask >> (3 + i) & 1 == 1;
            match catch(|| (e.has_type_envelope(txt[i]), e.check_type_envelope(txt[i]).is_ok())) { Ok((a, b)) => if a != exp || b != exp { acc.viol(format!("C19|types|text|expected-{exp}"), "text type check disagrees", format!("types/mask{mask}/txt{i}"), json!({"envelope": crate::report::ff(&e)})) }, Err(p) => acc.viol(format!("C19|types|panic|{}", p.loc), p.msg.clone(), format!("types/mask{mask}/txt{i}"), json!({})) }
        }
        // types are 'isA' assertions compared by digest: a type whose object was elided afterwards is still reported
        for i in 0..2 { if mask >> (3 + i) & 1 == 1 {
            acc.inc("type_queries");
            let el = e.elide_removing_target(&Envelope::new(txt[i]));
            if let Ok(false) = catch(|| el.has_type_envelope(txt[i])) { acc.viol("C19|types|text|elided-type-object-not-reported", "a type that was added is no longer reported once its object is elided (types compare by digest)", format!("types/mask{mask}/txt{i}/elided"), json!({"envelope": crate::report::ff(&el)})) }
        } }
        for i in 0..3 { if mask >> i & 1 == 1 {
            acc.inc("type_queries");
            let el = e.elide_removing_target(&Envelope::new(kvt[i].clone()));
            if let Ok((false, _)) | Ok((_, false)) = catch(|| (el.has_type(&kvt[i]), el.check_type(&kvt[i]).is_ok())) { acc.viol("C19|types|known-value|elided-type-object-not-reported", "a known-value type that was added is no longer reported once its object is elided (types compare by digest)", format!("types/mask{mask}/kv{i}/elided"), json!({"envelope": crate::report::ff(&el)})) }
        } }
        acc.inc("type_queries");
        if let Ok(false) = catch(|| !e.has_type_envelope("never-added") && !e.has_type(&known_values::IS_A)) { acc.viol("C19|types|absent|expected-false", "a type that was never added is reported", format!("types/mask{mask}/absent"), json!({})) }
        let n = mask.count_ones();
        match catch(|| (e.get_type().is_ok(), e.types().len())) { Ok((ok, cnt)) => if ok != (n == 1) || cnt != n as usize { acc.viol("C19|types|get_type", "get_type is Ok iff exactly one type; types() lists exactly the added ones", format!("types/mask{mask}/get_type"), json!({"envelope": crate::report::ff(&e)})) }, Err(p) => acc.viol(format!("C19|types|panic|{}", p.loc), p.msg.clone(), format!("types/mask{mask}/get_type"), json!({})) }
        acc.nontrivial(&("types", mask));
    }
    let evals = acc.get("attachment_sets") + acc.get("filter_queries") + acc.get("malformed_attachments") + acc.get("type_queries");
    let cov = json!({"evaluations": evals,
        "rule": "base envelopes x every sequence (order and repetition) of attachments up to the bound over payload shapes x vendors x conformsTo, through add_attachment and Attachments::add_to_envelope: attachments() set and fields, all 16 vendor/conformsTo filters, single-result form with error kinds; every single malformation of an attachment assertion must be reported; every subset of 5 types x every type query; distinct = (base, sequence) / type subset",
        "exhaustive": true, "bounds": {"attachments_per_envelope": maxn, "attachment_pool": atts.len(), "bases": nbases}});
    finish(ctx, acc, "exploration", cov, vec!["any error is accepted for a malformed attachment (InvalidAttachment or the underlying lookup error)".into()])
}
