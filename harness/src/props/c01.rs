//! C01 - digest tree matches the specification (DESIGN section 4, C01).
use crate::bind::{self, Route, O};
use crate::explore;
use crate::families;
use crate::invariants::check_tree;
use crate::refmodel::dcbor::V;
use crate::refmodel::ops;
use crate::refmodel::tree::{Kind, M};
use crate::report::{Acc, Ctx, catch, finish};
use bc_envelope::prelude::*;
use rayon::prelude::*;
use serde_json::json;
use std::collections::HashSet;

fn cmp(acc: &mut Acc, got: &Envelope, want: &M, route: &str, case_id: impl Fn() -> String) {
    acc.inc("envelopes_compared");
    let o = bind::observe(got); let x = bind::expected(want);
    if let Some((path, what)) = o.first_diff(&x, "") {
        let pos_case = what.clone();
        acc.viol(format!("C01|{}|{}", pos_case.split(' ').take(3).collect::<Vec<_>>().join("-"), route), format!("implementation and specification model disagree at {path}: {what}"), case_id(),
            json!({"model": want.show(), "route": route, "path": path, "implementation_digest": hex::encode(o.digest()), "model_digest": hex::encode(x.digest())}));
    }
    if let Some(b) = want.encode() { if got.to_cbor_data() != b { acc.viol(format!("C01|bytes|{route}"), "serialisation differs from the CDDL encoding of the model", case_id(), json!({"model": want.show(), "got": hex::encode(got.to_cbor_data()), "want": hex::encode(b)})) } }
    let mut errs = vec![]; check_tree(&o, "", &mut errs);
    for (clause, path) in errs { if clause.starts_with("digest") { acc.viol(format!("C01|{clause}|{route}"), format!("cached digest differs from the digest recomputed from the children at {path}"), case_id(), json!({"model": want.show()})) } }
}

pub fn run(ctx: &Ctx) -> i32 {
    let th = ctx.tier.thorough();
    let w = if th { 9 } else { 7 };
    let mut trees = families::plain(w); trees.extend(families::nsn()); trees.extend(families::valued());
    let key = bind::key0();
    // (a) every tree x every route
    let mut acc = trees.par_iter().enumerate().with_max_len(1).map(|(ti, m)| {
        let mut acc = Acc::new();
        acc.inc("trees");
        let maxn = max_assertions(m).min(4);
        let nperm = families::factorial(maxn);
        let mut routes: Vec<(String, Route)> = (0..nperm).map(|p| (format!("add_assertion_envelope/perm{p}"), Route::Envelopes(p))).collect();
        for p in 0..nperm.min(6) { routes.push((format!("add_assertion/perm{p}"), Route::PredObj(p))) }
        routes.push(("decode".into(), Route::Decode)); routes.push(("add_assertion_envelopes".into(), Route::Batch));
        let mut base = None;
        for (rn, r) in &routes {
            let cid = || format!("a/tree{ti}/{rn}");
            match catch(|| bind::build_route(m, *r)) {
                Ok(e) => { cmp(&mut acc, &e, m, rn.split('/').next().unwrap(), cid); if base.is_none() { base = Some(e) } }
                Err(p) => acc.viol(format!("C01|panic|{}", p.loc), format!("panic while building: {}", p.msg), cid(), json!({"model": m.show()})),
            }
            acc.inc("routes");
        }
        acc.nontrivial(&hex::encode(m.digest()));
        // detour routes: each must come back to the same digest tree
        if let Some(e) = base {
            let foreign = Envelope::new_assertion("zz-foreign", 99);
            let detours: Vec<(&str, Box<dyn Fn() -> Option<Envelope>>)> = vec![
                ("detour:add-remove", Box::new(|| Some(e.add_assertion_envelope(foreign.clone()).ok()?.remove_assertion(foreign.clone())))),
                ("detour:wrap-unwrap", Box::new(|| e.wrap_envelope().unwrap_envelope().ok())),
                ("detour:compress-uncompress", Box::new(|| e.compress().ok()?.uncompress().ok())),
                ("detour:encrypt-decrypt", Box::new(|| e.encrypt_subject(&key).ok()?.decrypt_subject(&key).ok())),
                ("detour:elide-unelide", Box::new(|| e.elide().unelide(e.clone()).ok())),
                ("detour:encode-decode", Box::new(|| Envelope::try_from_cbor_data(e.to_cbor_data()).ok())),
                ("detour:wrapenc-decrypt", Box::new(|| e.encrypt(&key).decrypt(&key).ok())),
            ];
            for (dn, f) in detours {
                acc.inc("routes");
                let cid = || format!("a/tree{ti}/{dn}");
                match catch(|| f()) {
                    Ok(Some(r)) => cmp(&mut acc, &r, m, dn, cid),
                    Ok(None) => acc.viol(format!("C01|detour-failed|{dn}"), "detour returned an error", cid(), json!({"model": m.show()})),
                    Err(p) => acc.viol(format!("C01|panic|{}", p.loc), format!("panic in {dn}: {}", p.msg), cid(), json!({"model": m.show()})),
                }
            }
        }
        if ti % 997 == (ctx.seed as usize % 997) { acc.sample(json!({"tree": m.show(), "model_digest": hex::encode(m.digest()), "routes": routes.len() + 7})) }
        acc
    }).reduce(Acc::new, Acc::merge);

    // (a') shapes at head-width boundaries and beyond the small-scope family
    let wide = families::wide_all(th);
    let aw = wide.par_iter().enumerate().with_max_len(1).map(|(wi, (wn, m))| {
        let mut acc = Acc::new();
        for (rn, r) in [("add_assertion_envelope/order0", Route::Envelopes(0)), ("add_assertion_envelope/order1", Route::Envelopes(1)), ("add_assertion_envelope/order7", Route::Envelopes(7)), ("add_assertion", Route::PredObj(3)), ("decode", Route::Decode), ("add_assertion_envelopes", Route::Batch)] {
            acc.inc("routes"); acc.inc("wide_shapes");
            match catch(|| bind::build_route(m, r)) { Ok(e) => cmp(&mut acc, &e, m, &format!("wide-{}", rn.split('/').next().unwrap()), || format!("wide/{wn}/{rn}")), Err(p) => acc.viol(format!("C01|panic|{}", p.site), p.msg.clone(), format!("wide/{wn}/{rn}"), json!({})) }
        }
        acc.nontrivial(&("wide", wi));
        acc
    }).reduce(Acc::new, Acc::merge);
    acc = acc.merge(aw);
    // (b) every leaf value of L at every position kind
    let leaves = families::leaf_alphabet();
    let b = leaves.par_iter().enumerate().with_max_len(1).map(|(li, v)| {
        let mut acc = Acc::new();
        let l = M::Leaf(v.clone()); let t = |s: &str| M::Leaf(V::Text(s.into()));
        let shapes = vec![
            ("subject", l.clone()),
            ("node-subject", M::Node(Box::new(l.clone()), vec![M::Assertion(Box::new(t("p")), Box::new(t("o")))])),
            ("predicate", M::Node(Box::new(t("s")), vec![M::Assertion(Box::new(l.clone()), Box::new(t("o")))])),
            ("object", M::Node(Box::new(t("s")), vec![M::Assertion(Box::new(t("p")), Box::new(l.clone()))])),
            ("wrapped", M::Wrapped(Box::new(l.clone()))),
            ("assertion-on-assertion", M::Node(Box::new(t("s")), vec![M::Node(Box::new(M::Assertion(Box::new(t("p")), Box::new(t("o")))), vec![M::Assertion(Box::new(t("q")), Box::new(l.clone()))])])),
        ];
        for (sn, m) in shapes {
            for (rn, r) in [("build", Route::Envelopes(0)), ("decode", Route::Decode)] {
                let cid = || format!("b/leaf{li}/{sn}/{rn}");
                acc.inc("leaf_positions");
                match catch(|| bind::build_route(&m, r)) {
                    Ok(e) => cmp(&mut acc, &e, &m, &format!("leaf-{rn}"), cid),
                    Err(p) => acc.viol(format!("C01|panic|{}", p.loc), format!("panic: {}", p.msg), cid(), json!({"model": m.show()})),
                }
            }
        }
        acc.nontrivial(&crate::refmodel::dcbor::bytes(v));
        acc
    }).reduce(Acc::new, Acc::merge);
    acc = acc.merge(b);
    acc = acc.merge(native_leaves());

    // (d) every obscuration pattern of each tree (all subsets of its digests, three actions, removing)
    let wd = if th { 7 } else { 6 };
    let d = families::plain(wd).par_iter().enumerate().with_max_len(1).map(|(ti, m)| {
        let mut acc = Acc::new();
        let e = bind::build(m, 0);
        let ds = m.distinct_digests(); let k = ds.len();
        for mask in 1u32..(1u32 << k) {
            let t: HashSet<_> = (0..k).filter(|i| mask >> i & 1 == 1).map(|i| ds[i]).collect();
            let tset = bind::dset(&t.iter().cloned().collect::<Vec<_>>());
            for (kind, action) in [(Kind::Elided, ObscureAction::Elide), (Kind::Encrypted, ObscureAction::Encrypt(key.clone())), (Kind::Compressed, ObscureAction::Compress)] {
                acc.inc("obscurings");
                let cid = || format!("d/tree{ti}/mask{mask}/{kind:?}");
                match catch(|| e.elide_removing_set_with_action(&tset, &action)) {
                    Ok(r) => { let want = ops::elide(m, &t, false, kind); cmp(&mut acc, &r, &want, "obscured", cid); acc.nontrivial(&(ti, mask, kind)); }
                    Err(_) => acc.inc("obscurings_panicked_counted_under_C16"),
                }
            }
        }
        acc
    }).reduce(Acc::new, Acc::merge);
    acc = acc.merge(d);

    // (c) every state of the operation-sequence exploration: cached digests equal digests recomputed from the children
    let depth = if th { 4 } else { 3 };
    let mut roots = families::plain(if th { 4 } else { 3 }); roots.extend(families::decode_only());
    let roots = explore::roots_from(&roots);
    let ops_ = explore::ops_full();
    let (st, bacc) = explore::explore(&roots, &ops_, depth,
        &|e, desc, acc| {
            let o = bind::observe(e); let mut errs = vec![]; check_tree(&o, "", &mut errs);
            for (clause, path) in errs { if clause.starts_with("digest") {
                acc.viol(format!("C01|{clause}|sequence"), format!("cached digest differs from the recomputed one at {path}"), format!("c/{}", desc()), json!({"envelope": hex::encode(e.to_cbor_data())})) } }
        },
        &|_, _, _, _, _| {}, None);
    let mut bacc = bacc; bacc.outcomes.clear();
    acc = acc.merge(bacc);
    let evals = acc.get("envelopes_compared") + st.states;
    let cov = json!({
        "states": st.states, "transitions": st.transitions, "traces_validated_against_impl": st.sequences + acc.get("routes") + acc.get("obscurings") + acc.get("leaf_positions"),
        "evaluations": evals,
        "rule": "a case = (model tree, construction route) or (tree, target subset, action) or a state of the operation-sequence search; non-trivial and distinct = distinct (tree digest) / (tree, subset, action) / leaf encoding",
        "exhaustive": true,
        "bounds": {"tree_weight": w, "obscuration_tree_weight": wd, "leaf_alphabet": leaves.len(), "sequence_depth": depth, "sequence_roots": roots.len(), "sequence_alphabet": ops_.len(), "permutations": "all insertion orders for nodes with <= 4 assertions"},
        "bfs": {"states_per_depth": st.per_depth, "merged": st.merged, "refused": st.refused, "panics_counted_under_C16": st.panics, "complete_sequences": st.sequences},
    });
    finish(ctx, acc, "model_checking", cov, vec![
        "reference model = my reading of draft-mcnally-envelope-09 sections 3-4, anchored at start-up to the draft's worked digests".into(),
        "values outside the atom / leaf alphabets and trees heavier than the bound are not covered".into()])
}
fn max_assertions(m: &M) -> usize {
    match m { M::Node(s, a) => a.len().max(max_assertions(s)).max(a.iter().map(max_assertions).max().unwrap_or(0)), M::Wrapped(e) => max_assertions(e), M::Assertion(p, o) => max_assertions(p).max(max_assertions(o)), _ => 0 }
}
/// leaves created from native Rust values through the public conversions must have the specification digest of their dCBOR
fn native_leaves() -> Acc {
    let mut acc = Acc::new();
    let cases: Vec<(&str, Envelope, V)> = vec![
        ("u8", Envelope::new(255u8), V::U(255)), ("u16", Envelope::new(65535u16), V::U(65535)), ("u32", Envelope::new(u32::MAX), V::U(u32::MAX as u64)), ("u64", Envelope::new(u64::MAX), V::U(u64::MAX)),
        ("i8", Envelope::new(-128i8), V::Neg(127)), ("i16", Envelope::new(-32768i16), V::Neg(32767)), ("i32", Envelope::new(i32::MIN), V::Neg(i32::MAX as u64)), ("i64", Envelope::new(i64::MIN), V::Neg(i64::MAX as u64)),
        ("i64pos", Envelope::new(5i64), V::U(5)), ("usize", Envelope::new(24usize), V::U(24)),
        ("f64", Envelope::new(1.5f64), V::F(1.5)), ("f64-int", Envelope::new(2.0f64), V::U(2)), ("f64-negint", Envelope::new(-3.0f64), V::Neg(2)), ("f32", Envelope::new(0.1f32), V::F(0.1f32 as f64)),
        ("f64-nan", Envelope::new(f64::NAN), V::F(f64::NAN)), ("f64-negzero", Envelope::new(-0.0f64), V::U(0)), ("f64-big", Envelope::new(1e300f64), V::F(1e300)),
        ("str", Envelope::new("héllo"), V::Text("héllo".into())), ("string", Envelope::new(String::from("")), V::Text("".into())),
        ("bool", Envelope::new(true), V::Bool(true)), ("false", Envelope::r#false(), V::Bool(false)), ("null", Envelope::null(), V::Null),
        ("bytes", Envelope::new(CBOR::to_byte_string([1u8, 2, 3])), V::Bytes(vec![1, 2, 3])),
        ("vec", Envelope::new(vec![1u32, 2, 3]), V::Array(vec![V::U(1), V::U(2), V::U(3)])),
        ("date", Envelope::new(dcbor::Date::from_timestamp(1720091471.0)), V::Tag(1, Box::new(V::U(1720091471)))),
        ("date-frac", Envelope::new(dcbor::Date::from_timestamp(0.5)), V::Tag(1, Box::new(V::F(0.5)))),
        ("digest", Envelope::new(Digest::from_data([0xAB; 32])), V::Tag(40001, Box::new(V::Bytes(vec![0xAB; 32])))),
        ("salt", Envelope::new(bc_components::Salt::from_data(vec![0xCD; 16])), V::Tag(40018, Box::new(V::Bytes(vec![0xCD; 16])))),
    ];
    for (n, e, v) in cases {
        acc.inc("native_leaves");
        cmp(&mut acc, &e, &M::Leaf(v), "native-leaf", || format!("b/native/{n}"));
    }
    let kv = Envelope::new(known_values::IS_A);
    cmp(&mut acc, &kv, &M::Known(1), "native-known", || "b/native/isA".into());
    acc
}
#[allow(dead_code)] fn _unused(_: O) {}
