//! C16 - no operation panics (DESIGN section 4, C16).
use crate::bind;
use crate::families;
use crate::refmodel::dcbor as rdcbor;
use crate::refmodel::grammar;
use crate::refmodel::tree::{Kind, M};
use crate::report::{Acc, Ctx, catch, finish};
use super::c09::{identity, ssh_opts};
use bc_envelope::prelude::*;
use bc_components::{PrivateKeyBase, PublicKeysProvider, SymmetricKey, EncapsulationScheme};
use rayon::prelude::*;
use serde_json::json;
use std::collections::HashSet;

pub fn family(th: bool) -> Vec<(String, Envelope)> {
    let key = bind::key0();
    let mut out: Vec<(String, Envelope)> = vec![];
    let w = if th { 6 } else { 5 };
    for (ti, m) in families::plain(w).iter().enumerate() {
        let e = bind::build(m, 0);
        out.push((format!("tree{ti}:{}", m.show()), e.clone()));
        let ds = m.distinct_digests(); let k = ds.len();
        for mask in 1u32..(1u32 << k) {
            if mask.count_ones() > (if th { 3 } else { 2 }) && m.weight() > 4 { continue }
            let t = bind::dset(&(0..k).filter(|i| mask >> i & 1 == 1).map(|i| ds[i]).collect::<Vec<_>>());
            for (kind, a) in super::c02::actions() { if let Ok(r) = catch(|| e.elide_removing_set_with_action(&t, &a)) { out.push((format!("tree{ti}/mask{mask}/{kind:?}"), r)) } }
        }
    }
    // decorated assertions with special predicates in every assertion slot
    let base = Envelope::new("subj");
    let salt = crate::explore::fixed_salt();
    let a = PrivateKeyBase::from_data(b"alice-seed-0123456789");
    let sig_assertion = base.add_signature(&a).assertions()[0].clone();
    let (_, xpub) = crate::explore::x_keys();
    let rec_assertion = base.add_recipient(&xpub, &key).assertions()[0].clone();
    let share_assertion = { let spec = bc_components::SSKRSpec::new(1, vec![bc_components::SSKRGroupSpec::new(1, 1).unwrap()]).unwrap(); let s = base.encrypt_subject(&key).unwrap().sskr_split_flattened(&spec, &key).unwrap(); s[0].assertions()[0].clone() };
    let specials: Vec<(&str, Envelope)> = vec![
        ("signed", sig_assertion), ("hasRecipient", rec_assertion), ("sskrShare", share_assertion),
        ("isA", Envelope::new_assertion(known_values::IS_A, "T")), ("isA-kv", Envelope::new_assertion(known_values::IS_A, known_values::NOTE)),
        ("sskrShare-junk", Envelope::new_assertion(known_values::SSKR_SHARE, "notashare")),
        ("sskrShare-empty-bytes", Envelope::new_assertion(known_values::SSKR_SHARE, CBOR::to_tagged_value(bc_components::tags::TAG_SSKR_SHARE, CBOR::to_byte_string(Vec::<u8>::new())))),
        ("sskrShare-one-byte", Envelope::new_assertion(known_values::SSKR_SHARE, CBOR::to_tagged_value(bc_components::tags::TAG_SSKR_SHARE, CBOR::to_byte_string(vec![7u8])))),
        ("sskrShare-five-bytes", Envelope::new_assertion(known_values::SSKR_SHARE, CBOR::to_tagged_value(bc_components::tags::TAG_SSKR_SHARE, CBOR::to_byte_string(vec![7u8; 5])))), ("attachment-junk", Envelope::new_assertion(known_values::ATTACHMENT, "notanattachment")),
        ("attachment", Envelope::new_attachment("payload", "v", Some("c"))), ("salt", Envelope::new_assertion(known_values::SALT, salt.clone())),
        ("signed-junk", Envelope::new_assertion(known_values::SIGNED, "junk")), ("hasRecipient-junk", Envelope::new_assertion(known_values::HAS_RECIPIENT, "junk")),
        ("result", Envelope::new_assertion(known_values::RESULT, "r")), ("error", Envelope::new_assertion(known_values::ERROR, "e")), ("body", Envelope::new_assertion(known_values::BODY, "b")), ("content", Envelope::new_assertion(known_values::CONTENT, "c")),
        ("vendor", Envelope::new_assertion(known_values::VENDOR, 1)), ("conformsTo", Envelope::new_assertion(known_values::CONFORMS_TO, 1)), ("note", Envelope::new_assertion(known_values::NOTE, 5)), ("date", Envelope::new_assertion(known_values::DATE, "notadate")),
        ("plain", Envelope::new_assertion("p", "o")),
    ];
    let arid = bc_components::ARID::from_data([7u8; 32]);
    let subjects: Vec<(&str, Envelope)> = vec![("leaf", base.clone()), ("wrapped", base.wrap_envelope()), ("known", Envelope::new(KnownValue::new(5))),
        ("request-subject", Envelope::new(CBOR::to_tagged_value(40004, arid.clone()))), ("response-subject", Envelope::new(CBOR::to_tagged_value(40005, arid.clone()))), ("event-subject", Envelope::new(CBOR::to_tagged_value(40026, arid.clone()))),
        ("encrypted-subject", base.encrypt_subject(&key).unwrap()), ("attachment-object", Envelope::new("payload").wrap_envelope())];
    for (sn, s) in &specials {
        let dec = s.add_salt_instance(salt.clone());
        let forms: Vec<(&str, Envelope)> = vec![("plain", s.clone()), ("decorated", dec.clone()), ("elided", s.elide()), ("compressed", s.compress().unwrap()), ("encrypted", bind::obscure_whole(s, Kind::Encrypted)), ("decorated-twice", dec.add_assertion("x", "y"))];
        for (fname, x) in &forms {
            for (subn, sub) in &subjects { if let Ok(e) = sub.add_assertion_envelope(x.clone()) { out.push((format!("special:{sn}/{fname}/on-{subn}"), e.clone())); if *subn == "leaf" { out.push((format!("special:{sn}/{fname}/on-{subn}+p:o"), e.add_assertion("p", "o"))); out.push((format!("special:{sn}/{fname}/twice"), e.add_assertion_envelope(s.clone()).unwrap_or(e.clone()))) } } }
        }
        // a decorated assertion already on an envelope whose INNER assertion is then obscured (salt + compression / encryption / elision meeting)
        if let Ok(parent) = base.add_assertion_envelope(dec.clone()) {
            let inner = bind::dset(&[bind::dg(s)]);
            for (kind, act) in super::c02::actions() { if let Ok(x) = catch(|| parent.elide_removing_set_with_action(&inner, &act)) { out.push((format!("special:{sn}/decorated-inner-{kind:?}"), x.clone())); out.push((format!("special:{sn}/decorated-inner-{kind:?}+p:o"), x.add_assertion("p", "o"))) } }
        }
        for (part, d) in [("object", s.as_object().map(|o| bind::dg(&o))), ("predicate", s.as_predicate().map(|o| bind::dg(&o)))] { if let Some(d) = d { let t = bind::dset(&[d]); for (kind, act) in super::c02::actions() { if let Ok(x) = catch(|| s.elide_removing_set_with_action(&t, &act)) { out.push((format!("special:{sn}/{part}-{kind:?}"), base.add_assertion_envelope(x).unwrap())) } } } }
    }
    // leaf payload classes that formatting code treats specially: long text with multi-byte characters at every offset around the truncation
    // lengths, long byte strings, large arrays / maps, deep tags
    for off in 28..=46usize { for ch in ["é", "好", "👍"] {
        let t = format!("{}{}{}", "x".repeat(off), ch, "y".repeat(12));
        out.push((format!("text:{off}x+{ch}"), Envelope::new(t.clone())));
        if off % 3 == 0 { out.push((format!("text-object:{off}x+{ch}"), Envelope::new("s").add_assertion(t.clone(), t.clone()).add_assertion("k", Envelope::new(t).elide()))) }
    } }
    out.push(("text:cjk-60".into(), Envelope::new("好".repeat(60))));
    out.push(("text:empty".into(), Envelope::new("")));
    out.push(("bytes:300".into(), Envelope::new(CBOR::to_byte_string(vec![0xA5u8; 300]))));
    out.push(("array:200".into(), Envelope::new((0..200u32).collect::<Vec<u32>>())));
    out.push(("map:40".into(), Envelope::new({ let mut m = Map::new(); for i in 0..40 { m.insert(i, format!("v{i}")); } m })));
    out.push(("tags:nested-12".into(), Envelope::new({ let mut c = CBOR::from("core"); for t in 0..12u64 { c = CBOR::to_tagged_value(100 + t, c) } c })));
    out.push(("float:nan".into(), Envelope::new(f64::NAN))); out.push(("int:min".into(), Envelope::new(i64::MIN))); out.push(("date:far-future".into(), Envelope::new(dcbor::Date::from_timestamp(253402300799.0))));
    // wide / deep boundary shapes
    for (wn, m) in families::wide_all(th) { if let Ok(e) = catch(|| bind::build(&m, 0)) { out.push((format!("wide:{wn}"), e)) } }
    // decode-only shapes
    for (i, m) in families::valued().iter().enumerate() { if let Ok(e) = catch(|| bind::build(m, 0)) { out.push((format!("valued{i}:{}", m.show()), e)) } }
    for (i, m) in families::decode_only().iter().chain(families::nsn().iter()).enumerate() { out.push((format!("decode-only{i}:{}", m.show()), bind::build_route(m, bind::Route::Decode))) }
    // envelopes ACCEPTED by the decoder from the structural mutation family of C06 (adversarially decoded ones)
    let mut seen: HashSet<Vec<u8>> = HashSet::new();
    for (n, b) in super::c06::seeds(if th { 5 } else { 4 }) {
        let Ok(v) = grammar::parse_cbor(&b) else { continue };
        let mut muts = vec![]; super::c06::mutations(&v, &mut muts, &|x| x, false);
        for (class, mv) in muts { let mb = rdcbor::bytes(&mv); if seen.insert(mb.clone()) { if let Ok(Ok(e)) = catch(|| Envelope::try_from_cbor_data(mb)) { out.push((format!("decoded-mutant:{n}/{class}"), e)) } } }
    }
    out
}

pub struct Op { pub name: String, pub f: Box<dyn Fn(&Envelope) + Send + Sync> }
pub fn ops() -> Vec<Op> {
    let key = bind::key0(); let key2 = bind::key1();
    let a = PrivateKeyBase::from_data(b"alice-seed-0123456789");
    let apub = a.public_keys();
    let (xpriv, xpub) = crate::explore::x_keys();
    let (mpriv, _mpub) = EncapsulationScheme::MLKEM512.keypair();
    let ed = identity("E", "ed25519"); let ssh = identity("H", "ssh-ed25519");
    let mut v: Vec<Op> = vec![];
    macro_rules! op { ($name:expr, $f:expr) => { v.push(Op { name: $name.to_string(), f: Box::new($f) }); } }
    // formatting
    op!("format", |e| { e.format(); }); op!("format_flat", |e| { e.format_flat(); }); op!("tree_format(false)", |e| { e.tree_format(false); }); op!("tree_format(true)", |e| { e.tree_format(true); });
    op!("diagnostic", |e| { e.diagnostic(); }); op!("diagnostic_annotated", |e| { e.diagnostic_annotated(); }); op!("hex", |e| { e.hex(); });
    op!("ur_string", |e| { let u = e.ur_string(); let _ = Envelope::from_ur_string(u); });
    op!("debug/display", |e| { let _ = format!("{:?}", e); let _ = format!("{}", e); });
    op!("tree_format_opt(no context)", |e| { e.tree_format_opt(false, None); e.tree_format_opt(true, None); });
    op!("summary(short)", |e| { let ctx = bc_envelope::FormatContext::default(); for n in [0usize, 1, 5, 10, 40] { let _ = e.summary(n, &ctx); } });
    op!("format_opt(no context)", |e| { e.format_opt(None); });
    op!("hex_opt", |e| { e.hex_opt(true, None); e.hex_opt(false, None); });
    op!("tree_format_with_target", |e| { let t: HashSet<Digest> = e.shallow_digests(); e.tree_format_with_target(false, &t); e.tree_format_with_target(true, &t); e.tree_format_with_target_opt(true, &HashSet::new(), None); });
    op!("short_id", |e| { e.short_id(); });
    op!("flat-context", |e| { let c = bc_envelope::FormatContext::default().set_flat(true); let _ = c.is_flat(); e.format_opt(Some(&c)); });
    op!("registry-name-helpers", |e| { if let Some(k) = e.as_known_value() { let _ = KnownValuesStore::name_for_known_value(k.clone(), None); let _ = KnownValuesStore::known_value_for_raw_value(k.value(), None); } let _ = KnownValuesStore::known_value_for_name("isA", None);
        if let Ok(f) = e.extract_subject::<Function>() { let _ = bc_envelope::extension::expressions::FunctionsStore::name_for_function(&f, None); let _ = f.named_name(); }
        if let Ok(p) = e.extract_subject::<Parameter>() { let _ = bc_envelope::extension::expressions::ParametersStore::name_for_parameter(&p, None); } });
    op!("new_or_null/none", |e| { Envelope::new_or_null(Some(e.clone())); Envelope::new_or_null(None::<Envelope>); Envelope::new_or_none(Some(e.clone())); Envelope::new_or_none(None::<Envelope>); });
    op!("try_from_cbor", |e| { let _ = Envelope::try_from_cbor(e.tagged_cbor()); let _ = Envelope::try_from_cbor(e.untagged_cbor()); let _ = Envelope::try_from(e.tagged_cbor()); });
    // digests / walk
    op!("digests", |e| { e.digests(0); e.digests(1); e.digests(2); e.deep_digests(); e.shallow_digests(); }); op!("structural_digest", |e| { e.structural_digest(); }); op!("elements_count", |e| { e.elements_count(); });
    op!("walk", |e| { let vv = |_e: Envelope, _l: usize, _ed: EdgeType, _p: Option<()>| -> Option<()> { None }; e.walk(false, &vv); e.walk(true, &vv); });
    op!("equality", |e| { e.is_identical_to(e); e.is_equivalent_to(&e.elide()); let _ = e == e; });
    // basic queries, one call each
    op!("subject", |e| { e.subject(); }); op!("assertions", |e| { e.assertions(); e.has_assertions(); });
    op!("as_assertion", |e| { e.as_assertion(); let _ = e.try_assertion(); }); op!("as_predicate", |e| { e.as_predicate(); let _ = e.try_predicate(); }); op!("as_object", |e| { e.as_object(); let _ = e.try_object(); });
    op!("as_leaf", |e| { e.as_leaf(); let _ = e.try_leaf(); let _ = e.try_byte_string(); }); op!("as_known_value", |e| { e.as_known_value(); let _ = e.try_known_value(); });
    op!("is_*", |e| { e.is_subject_assertion(); e.is_subject_obscured(); e.is_subject_elided(); e.is_subject_encrypted(); e.is_subject_compressed(); e.is_internal(); e.is_obscured(); e.is_null(); e.is_true(); e.is_false(); });
    macro_rules! ext { ($t:ty) => { op!(concat!("extract_subject<", stringify!($t), ">"), |e| { let _ = e.extract_subject::<$t>(); }); } }
    ext!(String); ext!(i64); ext!(u8); ext!(f64); ext!(f32); ext!(bool); ext!(dcbor::ByteString); ext!(dcbor::Date); ext!(Digest); ext!(KnownValue); ext!(Envelope); ext!(bc_envelope::Assertion); ext!(bc_components::Salt); ext!(bc_components::Signature); ext!(bc_components::SealedMessage); ext!(bc_components::SSKRShare); ext!(bc_components::ARID); ext!(Vec<u32>); ext!(std::collections::HashMap<String, u32>); ext!(HashSet<u32>);
    op!("extract_object", |e| { let _ = e.extract_object::<String>(); let _ = e.extract_object::<KnownValue>(); }); op!("extract_predicate", |e| { let _ = e.extract_predicate::<String>(); });
    op!("try_as", |e| { let _ = e.try_as::<i32>(); let _ = String::try_from(e.clone()); });
    let preds: Vec<(&str, Envelope)> = vec![("str:p", Envelope::new("p")), ("str:a", Envelope::new("a")), ("kv:isA", Envelope::new(known_values::IS_A)), ("kv:signed", Envelope::new(known_values::SIGNED)), ("kv:salt", Envelope::new(known_values::SALT)), ("kv:note", Envelope::new(known_values::NOTE)), ("kv:hasRecipient", Envelope::new(known_values::HAS_RECIPIENT)), ("kv:sskrShare", Envelope::new(known_values::SSKR_SHARE)), ("kv:attachment", Envelope::new(known_values::ATTACHMENT)), ("kv:result", Envelope::new(known_values::RESULT)), ("kv:vendor", Envelope::new(known_values::VENDOR)), ("int:1", Envelope::new(1)), ("elided:p", Envelope::new("p").elide())];
    for (nm, p) in preds {
        let p1 = p.clone(); op!(format!("assertions_with_predicate[{nm}]"), move |e: &Envelope| { e.assertions_with_predicate(p1.clone()); });
        let p1 = p.clone(); op!(format!("assertion_with_predicate[{nm}]"), move |e: &Envelope| { let _ = e.assertion_with_predicate(p1.clone()); let _ = e.optional_assertion_with_predicate(p1.clone()); });
        let p2 = p.clone(); op!(format!("object_for_predicate[{nm}]"), move |e: &Envelope| { let _ = e.object_for_predicate(p2.clone()); });
        let p3 = p.clone(); op!(format!("objects_for_predicate[{nm}]"), move |e: &Envelope| { e.objects_for_predicate(p3.clone()); });
        let p4 = p.clone(); op!(format!("optional_object_for_predicate[{nm}]"), move |e: &Envelope| { let _ = e.optional_object_for_predicate(p4.clone()); });
        let p4 = p.clone(); op!(format!("extract_object_for_predicate[{nm}]"), move |e: &Envelope| { let _ = e.extract_optional_object_for_predicate::<String>(p4.clone()); let _ = e.extract_object_for_predicate::<String>(p4.clone()); let _ = e.extract_object_for_predicate_with_default::<String>(p4.clone(), "d".into()); });
        let p5 = p.clone(); op!(format!("extract_objects_for_predicate[{nm}]"), move |e: &Envelope| { let _ = e.extract_objects_for_predicate::<String>(p5.clone()); });
        let p5 = p.clone(); op!(format!("try_objects_for_predicate[{nm}]"), move |e: &Envelope| { let _ = e.try_objects_for_predicate::<String>(p5.clone()); let _ = e.try_object_for_predicate::<String>(p5.clone()); let _ = e.try_optional_object_for_predicate::<String>(p5.clone()); });
    }
    // types / attachments
    op!("types", |e| { e.types(); }); op!("get_type", |e| { let _ = e.get_type(); }); op!("has_type", |e| { e.has_type(&known_values::IS_A); }); op!("has_type_envelope", |e| { e.has_type_envelope("T"); }); op!("check_type", |e| { let _ = e.check_type(&known_values::IS_A); let _ = e.check_type_envelope("T"); });
    op!("attachments", |e| { let _ = e.attachments(); }); op!("attachments_with_vendor_and_conforms_to", |e| { let _ = e.attachments_with_vendor_and_conforms_to(Some("v"), Some("c")); let _ = e.attachments_with_vendor_and_conforms_to(None, Some("c")); });
    op!("attachment_with_vendor_and_conforms_to", |e| { let _ = e.attachment_with_vendor_and_conforms_to(Some("v"), None); }); op!("attachment_payload", |e| { let _ = e.attachment_payload(); }); op!("attachment_vendor", |e| { let _ = e.attachment_vendor(); }); op!("attachment_conforms_to", |e| { let _ = e.attachment_conforms_to(); });
    op!("validate_attachment", |e| { let _ = e.validate_attachment(); }); op!("Attachments::try_from_envelope", |e| { let _ = bc_envelope::Attachments::try_from_envelope(e); });
    // transforms
    op!("add_assertion", |e| { e.add_assertion("p", "o"); }); op!("add_assertion_envelope", |e| { let _ = e.add_assertion_envelope(Envelope::new_assertion("p", "o")); let _ = e.add_assertion_envelope(Envelope::new("notassertion")); let _ = e.add_assertion_envelope(e.clone()); });
    op!("remove_assertion", |e| { e.remove_assertion(Envelope::new_assertion("p", "o")); if let Some(f) = e.assertions().first() { e.remove_assertion(f.clone()); } }); op!("replace_assertion", |e| { let _ = e.replace_assertion(Envelope::new_assertion("p", "o"), Envelope::new_assertion("q", "r")); if let Some(f) = e.assertions().first() { let _ = e.replace_assertion(f.clone(), Envelope::new_assertion("q", "r")); } });
    op!("replace_subject", |e| { e.replace_subject(Envelope::new("s2")); e.replace_subject(Envelope::new("s2").add_assertion("x", "y")); }); op!("add_assertion_salted", |e| { e.add_assertion_salted("p", "o", true); let _ = e.add_assertion_envelope_salted(Envelope::new_assertion("p", "o").elide(), true); }); op!("add_type", |e| { e.add_type("T"); }); op!("add_attachment", |e| { e.add_attachment("pl", "v", None); });
    op!("re-add own assertions", |e| { let a = e.assertions(); let _ = e.subject().add_assertion_envelopes(&a); e.subject().add_assertions(&a); e.add_assertions(&a); });
    op!("wrap_envelope", |e| { e.wrap_envelope(); }); op!("unwrap_envelope", |e| { let _ = e.unwrap_envelope(); });
    op!("elide", |e| { e.elide(); }); op!("unelide", |e| { let _ = e.unelide(e.clone()); let _ = e.unelide(Envelope::new("zz")); let _ = e.elide().unelide(e.clone()); });
    for (nm, mk) in [("Elide", 0), ("Encrypt", 1), ("Compress", 2)] {
        let k = key.clone();
        op!(format!("elide_set_with_action[{nm}]"), move |e: &Envelope| {
            let action = match mk { 0 => ObscureAction::Elide, 1 => ObscureAction::Encrypt(k.clone()), _ => ObscureAction::Compress };
            let ds: Vec<Digest> = { let mut d: Vec<Digest> = e.deep_digests().into_iter().collect(); d.sort(); d };
            for d in &ds { let t: HashSet<Digest> = [d.clone()].into_iter().collect(); e.elide_removing_set_with_action(&t, &action); e.elide_revealing_set_with_action(&t, &action); }
            let all: HashSet<Digest> = ds.iter().cloned().collect(); e.elide_removing_set_with_action(&all, &action); e.elide_revealing_set_with_action(&all, &action);
            e.elide_revealing_set_with_action(&HashSet::new(), &action);
        });
    }
    op!("elide_array/target", |e| { let s = e.subject(); e.elide_removing_target(&s); e.elide_revealing_target(&s); e.elide_removing_array(&[&s, e]); e.elide_revealing_array(&[&s, e]); });
    op!("compress", |e| { let _ = e.compress(); }); op!("compress_subject", |e| { let _ = e.compress_subject(); }); op!("uncompress", |e| { let _ = e.uncompress(); }); op!("uncompress_subject", |e| { let _ = e.uncompress_subject(); });
    { let k = key.clone(); op!("encrypt_subject", move |e| { let _ = e.encrypt_subject(&k); }); }
    { let k = key.clone(); let k2 = key2.clone(); op!("decrypt_subject", move |e| { let _ = e.decrypt_subject(&k); let _ = e.decrypt_subject(&k2); }); }
    { let k = key.clone(); let k2 = key2.clone(); op!("encrypt/decrypt", move |e| { let x = e.encrypt(&k); let _ = x.decrypt(&k); let _ = x.decrypt(&k2); let _ = e.decrypt(&k); }); }
    // verification
    { let sk = ed.sk.clone(); op!("add_signature", move |e| { e.add_signature(&sk); }); }
    { let sk = ssh.sk.clone(); op!("add_signature_opt(ssh, with options)", move |e| { e.add_signature_opt(&sk, ssh_opts(), None); }); }
    { let ap = apub.clone(); op!("has_signature_from", move |e| { let _ = e.has_signature_from(&ap); }); }
    { let ap = apub.clone(); op!("verify_signature_from", move |e| { let _ = e.verify_signature_from(&ap); }); }
    { let ap = apub.clone(); op!("has_signature_from_returning_metadata", move |e| { let _ = e.has_signature_from_returning_metadata(&ap); let _ = e.verify_signature_from_returning_metadata(&ap); }); }
    { let ap = apub.clone(); op!("has_signatures_from", move |e| { let _ = e.has_signatures_from(&[&ap]); let _ = e.has_signatures_from_threshold(&[&ap, &ap], Some(1)); let _ = e.verify_signatures_from(&[&ap]); let _ = e.verify_signatures_from_threshold(&[&ap], Some(1)); }); }
    { let ap = apub.clone(); op!("verify", move |e| { let _ = e.verify(&ap); let _ = e.verify_returning_metadata(&ap); }); }
    { let a1 = a.clone(); let ap = apub.clone(); op!("sign+verify", move |e| { let _ = e.sign(&a1).verify(&ap); }); }
    { let pk = ed.pk.clone(); op!("is_verified_signature", move |e| { if let Ok(s) = e.extract_subject::<bc_components::Signature>() { e.is_verified_signature(&s, &pk); let _ = e.verify_signature(&s, &pk); } }); }
    op!("recipients", |e| { let _ = e.recipients(); });
    { let xs = xpriv.clone(); op!("decrypt_subject_to_recipient(x25519)", move |e| { let _ = e.decrypt_subject_to_recipient(&xs); }); }
    { let ms = mpriv.clone(); op!("decrypt_subject_to_recipient(mlkem512)", move |e| { let _ = e.decrypt_subject_to_recipient(&ms); }); }
    { let xs = xpriv.clone(); op!("decrypt_to_recipient", move |e| { let _ = e.decrypt_to_recipient(&xs); }); }
    { let xp = xpub.clone(); let k = key.clone(); op!("add_recipient", move |e| { let r = e.add_recipient(&xp, &k); let _ = r.recipients(); }); }
    { let xp = xpub.clone(); let xs = xpriv.clone(); op!("encrypt_subject_to_recipient", move |e| { if let Ok(x) = e.encrypt_subject_to_recipient(&xp) { let _ = x.decrypt_subject_to_recipient(&xs); } }); }
    { let xp = xpub.clone(); let xs = xpriv.clone(); let a1 = a.clone(); let ap = apub.clone(); op!("seal/unseal", move |e| { let s = e.seal(&a1, &xp); let _ = s.unseal(&ap, &xs); let _ = e.unseal(&ap, &xs); }); }
    op!("sskr_join", |e| { let _ = Envelope::sskr_join(&[e]); let _ = Envelope::sskr_join(&[e, e]); let _ = Envelope::sskr_join(&[]); });
    { let k = key.clone(); op!("sskr_split", move |e| { let spec = bc_components::SSKRSpec::new(1, vec![bc_components::SSKRGroupSpec::new(2, 3).unwrap()]).unwrap(); if let Ok(s) = e.sskr_split_flattened(&spec, &k) { let r: Vec<&Envelope> = s.iter().collect(); let _ = Envelope::sskr_join(&r); } }); }
    op!("proof", |e| { let ds = e.deep_digests(); for d in &ds { if let Some(p) = e.proof_contains_target(d) { e.confirm_contains_target(d, &p); } } if let Some(p) = e.proof_contains_set(&ds) { e.confirm_contains_set(&ds, &p); } });
    op!("add_salt", |e| { e.add_salt(); }); op!("add_salt_with_len", |e| { let _ = e.add_salt_with_len(8); let _ = e.add_salt_with_len(7); let _ = e.add_salt_with_len(0); }); op!("add_salt_in_range", |e| { let _ = e.add_salt_in_range(8..=9); let _ = e.add_salt_in_range(1..=9); });
    // parsing
    op!("Expression::try_from", |e| { let _ = Expression::try_from(e.clone()); }); op!("Request::try_from", |e| { let _ = Request::try_from(e.clone()); let _ = Request::try_from((e.clone(), Some(&Function::from(1u64)))); });
    op!("Response::try_from", |e| { let _ = Response::try_from(e.clone()); }); op!("Event::try_from", |e| { let _ = bc_envelope::Event::<String>::try_from(e.clone()); });
    op!("Function::try_from", |e| { let _ = Function::try_from(e.clone()); });
    op!("roundtrip", |e| { let b = e.to_cbor_data(); let _ = Envelope::try_from_cbor_data(b); let _ = e.tagged_cbor(); let _ = e.untagged_cbor(); });
    v
}

pub fn run(ctx: &Ctx) -> i32 {
    let th = ctx.tier.thorough();
    let fam = family(th);
    let ops_ = ops();
    let acc = fam.par_iter().enumerate().with_max_len(1).map(|(ei, (name, e))| {
        let mut acc = Acc::new();
        acc.inc("envelopes");
        let mut any = false;
        for o in &ops_ {
            acc.inc("calls");
            if let Err(p) = catch(|| (o.f)(e)) {
                any = true;
                let opfam = o.name.split('[').next().unwrap().split('<').next().unwrap().to_string();
                acc.outcome(format!("panic:{}@{}", opfam, p.loc));
                acc.viol(format!("C16|at={}|{}{}", p.site, p.class(), if p.detail().is_empty() { String::new() } else { format!(":{}", p.detail()) }), format!("{} panicked at {}: {}", o.name, p.loc, p.msg.chars().take(160).collect::<String>()), format!("env{ei}:{name}/op:{}", o.name),
                    json!({"operation": o.name, "envelope": hex::encode(e.to_cbor_data()), "notation": crate::report::ff(&e).chars().take(200).collect::<String>(), "panic_site": p.loc, "message": p.msg}));
            }
        }
        if any { acc.inc("envelopes_with_a_panic") }
        acc.nontrivial(&bind::observe(e));
        if ei % 997 == (ctx.seed as usize % 997) { acc.sample(json!({"envelope": name, "notation": crate::report::ff(&e).chars().take(120).collect::<String>(), "operations_applied": ops_.len()})) }
        acc
    }).reduce(Acc::new, Acc::merge);
    // builder entry points that cannot return an error
    let mut acc = acc;
    let sshid = identity("H", "ssh-ed25519");
    let (_, xpub) = crate::explore::x_keys();
    let b = Envelope::new("x");
    for (n, r) in [("add_signature(ssh key, no options)", catch(|| { b.add_signature(&sshid.sk); })), ("sign(ssh key, no options)", catch(|| { b.sign(&sshid.sk); })), ("seal(ssh key, no options)", catch(|| { b.seal(&sshid.sk, &xpub); }))] {
        acc.inc("calls");
        if let Err(p) = r { acc.viol(format!("C16|at={}|{}{}", p.site, p.class(), if p.detail().is_empty() { String::new() } else { format!(":{}", p.detail()) }), format!("{n} panicked at {}: {}", p.loc, p.msg), format!("builder/{n}"), json!({"operation": n, "panic_site": p.loc})) }
    }
    let evals = acc.get("calls");
    let cov = json!({"evaluations": evals,
        "rule": "envelope family (trees with obscuration patterns, decorated / obscured assertions with every special predicate on every subject kind, decode-only shapes, envelopes ACCEPTED by the decoder from the structural mutation family) x every operation of the query / transform / obscure / verify / parse / format families, each inside catch_unwind; violations are keyed by panic SITE; distinct = distinct observed envelopes",
        "exhaustive": true, "bounds": {"tree_weight": if th { 6 } else { 5 }, "operations": ops_.len(), "envelopes": fam.len()}});
    let _ = (M::Known(0), SymmetricKey::from_data([0u8; 32]));
    finish(ctx, acc, "exploration", cov, vec!["builder misuse with a documented precondition (Response::with_result on a failure, empty salt ranges, ur_string before register_tags) is outside the argument menus".into()])
}
