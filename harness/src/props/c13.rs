//! C13 - compression round-trips and preserves digests (DESIGN section 4, C13).
use crate::bind;
use crate::explore::{self, Op};
use crate::families;
use crate::refmodel::dcbor::{self, V};
use crate::refmodel::grammar;
use crate::refmodel::tree::M;
use crate::report::{Acc, Ctx, catch, finish};
use bc_envelope::prelude::*;
use bc_components::Compressed;
use rayon::prelude::*;
use serde_json::json;

fn subject_case(e: &Envelope) -> &'static str { bind::observe(&e.subject()).case_name() }
fn ops() -> Vec<Op> {
    let mk = |n: &str, f: Box<dyn Fn(&Envelope) -> Option<Envelope> + Send + Sync>| Op { name: n.into(), f };
    vec![
        mk("compress", Box::new(|e| e.compress().ok())), mk("compress_subject", Box::new(|e| e.compress_subject().ok())),
        mk("uncompress", Box::new(|e| e.uncompress().ok())), mk("uncompress_subject", Box::new(|e| e.uncompress_subject().ok())),
        mk("add(c:d)", Box::new(|e| Some(e.add_assertion("c", "d")))), mk("wrap", Box::new(|e| Some(e.wrap_envelope()))),
        mk("encode-decode", Box::new(|e| Envelope::try_from_cbor_data(e.to_cbor_data()).ok())),
        // mixing with the other obscuring operations: compressed elements next to / inside elided and encrypted ones
        mk("elide(first-assertion)", Box::new(|e| { let a = e.assertions(); a.first().map(|x| e.elide_removing_target(x)) })),
        mk("elide(subject)", Box::new(|e| Some(e.elide_removing_target(&e.subject())))),
        mk("encrypt_subject", Box::new(|e| e.encrypt_subject_opt(&bind::key0(), Some(bind::nonce0())).ok())),
        mk("decrypt_subject", Box::new(|e| e.decrypt_subject(&bind::key0()).ok())),
        mk("Compress.removing(inner-of-first-decorated-assertion)", Box::new(|e| { let a = e.assertions(); let d = a.iter().find(|x| x.is_node())?; Some(e.elide_removing_set_with_action(&bind::dset(&[bind::dg(&d.subject())]), &ObscureAction::Compress)) })),
        mk("Compress.removing(first-assertion)", Box::new(|e| { let a = e.assertions(); a.first().map(|x| e.elide_removing_set_with_action(&bind::dset(&[bind::dg(x)]), &ObscureAction::Compress)) })),
    ]
}
fn map_compressed(v: &V, f: &dyn Fn(&mut Vec<V>), done: &mut bool) -> V {
    if *done { return v.clone() }
    match v {
        V::Tag(40003, inner) => { if let V::Array(a) = &**inner { let mut a2 = a.clone(); f(&mut a2); *done = true; V::Tag(40003, Box::new(V::Array(a2))) } else { v.clone() } }
        V::Tag(200, c) => V::Tag(200, Box::new(map_compressed(c, f, done))),
        V::Array(a) => V::Array(a.iter().map(|x| map_compressed(x, f, done)).collect()),
        _ => v.clone(),
    }
}

pub fn run(ctx: &Ctx) -> i32 {
    let th = ctx.tier.thorough();
    let (depth, rw) = if th { (6, 6) } else { (5, 5) };
    let mut rm = families::plain(rw);
    rm.extend(families::decode_only().into_iter().take(2)); rm.extend(families::nsn().into_iter().take(if th { 10 } else { 4 })); rm.extend(families::valued_few()); rm.extend(families::decorated_obscured());
    let mut roots = explore::roots_from(&rm);
    // payload classes
    roots.push(("2KB-repetitive".into(), Envelope::new("x".repeat(2000)).add_assertion("k", "y".repeat(500))));
    roots.push(("empty-string".into(), Envelope::new("")));
    roots.push(("incompressible-64".into(), Envelope::new(CBOR::to_byte_string((0..64u32).map(|i| (i.wrapping_mul(2654435761) >> 13) as u8).collect::<Vec<u8>>()))));
    roots.push(("already-compressed".into(), Envelope::new("zzzzzzzzzzzzzzzzzzzzzzzzzzzzzzzzzzzzzzzz").compress().unwrap()));
    { let dec = Envelope::new_assertion("knows", "Bob").add_salt_instance(crate::explore::fixed_salt()); let ann = Envelope::new_assertion("email", "a@b").add_assertion("verified", true);
      roots.push(("decorated-assertions".into(), Envelope::new("Alice").add_assertion_envelope(dec).unwrap().add_assertion_envelope(ann).unwrap().add_assertion("age", 30))); }
    roots.push(("already-compressed-subject".into(), Envelope::new("s").add_assertion("p", "o").compress_subject().unwrap()));
    for (wn, m) in families::wide_tier(th) { if th || ["node-24-assertions", "wrapped-x24", "text-256", "bytes-256", "nested-nodes-x12"].contains(&wn.as_str()) { roots.push((format!("wide:{wn}"), bind::build(&m, 0))) } }
    let on_state = |e: &Envelope, desc: &dyn Fn() -> String, acc: &mut Acc| {
        let d0 = bind::dg(e); let o0 = bind::observe(e);
        let sc = subject_case(e);
        let det = |x: &Envelope| json!({"envelope": hex::encode(e.to_cbor_data()), "notation": crate::report::ff(&e), "result": crate::report::ff(&x)});
        // compress / uncompress
        acc.inc("law_checks");
        if let Ok(Ok(c)) = catch(|| e.compress()) {
            if bind::dg(&c) != d0 { acc.viol(format!("C13|compress|{sc}|digest-changed"), "compress changed the digest", format!("{}/compress", desc()), det(&c)) }
            match catch(|| c.uncompress()) {
                Ok(Ok(u)) => if bind::observe(&u) != o0 && !matches!(o0, bind::O::Obscured(..)) { acc.viol(format!("C13|uncompress-compress|{sc}|differs"), "uncompress(compress(e)) is not identical to e", format!("{}/compress-uncompress", desc()), det(&u)) } else { acc.inc("roundtrips_ok") },
                Ok(Err(er)) => acc.viol(format!("C13|uncompress-compress|{sc}|refused"), format!("{er}"), format!("{}/compress-uncompress", desc()), det(&c)),
                Err(_) => acc.inc("panics_counted_under_C16"),
            }
            if let Ok(Ok(cc)) = catch(|| c.compress()) { if bind::observe(&cc) != bind::observe(&c) || cc.to_cbor_data() != c.to_cbor_data() { acc.viol(format!("C13|compress-twice|{sc}|not-idempotent"), "compress(compress(e)) is not identical to compress(e)", format!("{}/compress-twice", desc()), det(&cc)) } }
        }
        // subject variants, also with an assertion added in between
        acc.inc("law_checks");
        if let Ok(Ok(cs)) = catch(|| e.compress_subject()) {
            if bind::dg(&cs) != d0 { acc.viol(format!("C13|compress_subject|{sc}|digest-changed"), "compress_subject changed the digest", format!("{}/compress_subject", desc()), det(&cs)) }
            let subject_was_compressed = matches!(bind::observe(&e.subject()), bind::O::Obscured(crate::refmodel::tree::Kind::Compressed, _));
            match catch(|| cs.uncompress_subject()) {
                Ok(Ok(u)) => {
                    if bind::dg(&u) != d0 { acc.viol(format!("C13|uncompress_subject|{sc}|digest-changed"), "uncompress_subject changed the digest", format!("{}/compress_subject-uncompress_subject", desc()), det(&u)) }
                    else if !subject_was_compressed && bind::observe(&u) != o0 { acc.viol(format!("C13|uncompress_subject-compress_subject|{sc}|differs"), "uncompress_subject(compress_subject(e)) is not identical to e", format!("{}/compress_subject-uncompress_subject", desc()), det(&u)) } else { acc.inc("roundtrips_ok") }
                }
                Ok(Err(er)) => acc.viol(format!("C13|uncompress_subject-compress_subject|{sc}|refused"), format!("{er}"), format!("{}/compress_subject-uncompress_subject", desc()), det(&cs)),
                Err(_) => acc.inc("panics_counted_under_C16"),
            }
            let plus = e.add_assertion("c", "d");
            if let Ok(Ok(u)) = catch(|| cs.add_assertion("c", "d").uncompress_subject()) {
                if bind::dg(&u) != bind::dg(&plus) { acc.viol(format!("C13|uncompress_subject|{sc}|digest-changed-after-add"), "a compressed subject given a further assertion does not uncompress to the digest of the original with that assertion", format!("{}/compress_subject-add-uncompress_subject", desc()), json!({"envelope": crate::report::ff(&e), "got": crate::report::ff(&u), "want": crate::report::ff(&plus)})) }
                else if !subject_was_compressed && bind::observe(&u) != bind::observe(&plus) { acc.viol(format!("C13|uncompress_subject|{sc}|differs-after-add"), "not identical after add", format!("{}/compress_subject-add-uncompress_subject", desc()), json!({"envelope": crate::report::ff(&e), "got": crate::report::ff(&u)})) }
            }
        }
        // uncompress operations on whatever this state is never change the digest
        for (n, r) in [("uncompress", catch(|| e.uncompress())), ("uncompress_subject", catch(|| e.uncompress_subject()))] {
            acc.inc("law_checks");
            if let Ok(Ok(u)) = r { if bind::dg(&u) != d0 { acc.viol(format!("C13|{n}|{sc}|digest-changed"), format!("{n} changed the digest"), format!("{}/{n}", desc()), det(&u)) } }
        }
    };
    let ops_ = ops();
    let (st, mut acc) = explore::explore(&roots, &ops_, depth, &on_state, &|_, _, _, _, _| {}, None);
    // the laws (no search) on every count / depth sweep shape
    { let sw = families::wide_all(th); let a2 = sw.par_iter().with_max_len(1).map(|(wn, m)| { let mut acc = Acc::new(); if let Ok(e) = catch(|| bind::build(m, 0)) { acc.inc("sweep_shapes"); on_state(&e, &|| format!("sweep/{wn}"), &mut acc) } acc }).reduce(Acc::new, Acc::merge); acc = acc.merge(a2); }
    // faults on compressed elements
    let fam: Vec<M> = families::marked(if th { 6 } else { 5 });
    let f = fam.par_iter().enumerate().with_max_len(1).map(|(fi, m)| {
        let mut acc = Acc::new();
        let e = bind::build(m, 0);
        let c = e.compress().unwrap();
        let want = bind::observe(&e);
        let v = grammar::parse_cbor(&c.to_cbor_data()).unwrap();
        let fields = std::cell::RefCell::new(vec![]); let mut d = false; map_compressed(&v, &|a| *fields.borrow_mut() = a.clone(), &mut d);
        let fields = fields.into_inner();
        let judge = |acc: &mut Acc, tv: V, what: String| {
            acc.inc("faults");
            let b = dcbor::bytes(&tv);
            match catch(|| Envelope::try_from_cbor_data(b.clone()).ok().and_then(|x| x.uncompress().ok())) {
                Ok(None) => acc.inc("faults_rejected"),
                Ok(Some(u)) => if bind::observe(&u) != want { acc.viol(format!("C13|fault|{}", what.split('/').next().unwrap()), "a corrupted compressed element uncompressed to something else than the original", format!("fault/{fi}/{what}"), json!({"tree": m.show(), "input": hex::encode(&b)})) } else { acc.inc("faults_harmless_same_content") },
                Err(p) => acc.viol(format!("C13|fault|panic|{}", p.loc), p.msg.clone(), format!("fault/{fi}/{what}"), json!({"input": hex::encode(&b)})),
            }
        };
        if let Some(V::Bytes(data)) = fields.get(2) {
            for bit in 0..data.len() * 8 { let mut dd = false; let tv = map_compressed(&v, &|a| { if let V::Bytes(x) = &mut a[2] { x[bit / 8] ^= 1 << (bit % 8) } }, &mut dd); judge(&mut acc, tv, format!("data-bit/{bit}")) }
            for cut in [0usize, 1, data.len() / 2] { let mut dd = false; let tv = map_compressed(&v, &|a| { if let V::Bytes(x) = &mut a[2] { x.truncate(cut) } }, &mut dd); judge(&mut acc, tv, format!("data-truncated/{cut}")) }
        }
        for fi2 in 0..2 { if let Some(V::U(n)) = fields.get(fi2) { for bit in 0..32 { let nv = n ^ (1u64 << bit); let mut dd = false; let tv = map_compressed(&v, &|a| { a[fi2] = V::U(nv) }, &mut dd); judge(&mut acc, tv, format!("{}-bit/{bit}", if fi2 == 0 { "checksum" } else { "size" })) } } }
        // digest field replaced by another family member's
        for other in fam.iter().take(6) { if other.digest() != m.digest() { let od = other.digest().to_vec(); let mut dd = false; let tv = map_compressed(&v, &|a| { a[3] = V::Tag(40001, Box::new(V::Bytes(od.clone()))) }, &mut dd); judge(&mut acc, tv, "digest-replaced".into()) } }
        // hand-built mismatch: content X declared as digest(Y), bare and as the subject of a node
        for (oi, other) in fam.iter().enumerate().take(8) {
            if other.digest() == m.digest() { continue }
            acc.inc("faults");
            let forged = Compressed::from_uncompressed_data(e.to_cbor_data(), Some(Digest::from_data(other.digest())));
            match catch(|| Envelope::try_from(forged.clone()).ok().and_then(|x| x.uncompress().ok())) { Ok(None) => {}, Ok(Some(_)) => acc.viol("C13|fault|content-digest-mismatch|bare", "a compressed element whose content does not hash to its declared digest was accepted", format!("fault/{fi}/forged-{oi}/bare"), json!({"content": m.show(), "declares": other.show()})), Err(p) => acc.viol(format!("C13|fault|panic|{}", p.loc), p.msg.clone(), format!("fault/{fi}/forged-{oi}"), json!({})) }
            acc.inc("faults");
            match catch(|| Envelope::try_from(forged.clone()).ok().and_then(|x| x.add_assertion("k", "v").uncompress_subject().ok())) { Ok(None) => {}, Ok(Some(_)) => acc.viol("C13|fault|content-digest-mismatch|node-subject", "forged compressed subject accepted", format!("fault/{fi}/forged-{oi}/node"), json!({"content": m.show(), "declares": other.show()})), Err(p) => acc.viol(format!("C13|fault|panic|{}", p.loc), p.msg.clone(), format!("fault/{fi}/forged-{oi}"), json!({})) }
        }
        acc.nontrivial(&("fault", fi));
        acc
    }).reduce(Acc::new, Acc::merge);
    acc = acc.merge(f);
    for (n, pt) in [("not-cbor", vec![0xffu8]), ("cbor-not-envelope", vec![0x61, 0x61]), ("empty", vec![])] {
        acc.inc("faults");
        let forged = Compressed::from_uncompressed_data(pt.clone(), Some(Digest::from_image(&pt)));
        if let Ok(Some(_)) = catch(|| Envelope::try_from(forged.clone()).ok().and_then(|x| x.uncompress().ok())) { acc.viol(format!("C13|fault|payload-{n}"), "non-envelope payload accepted", format!("fault/payload/{n}"), json!({})) }
    }
    let cov = json!({"states": st.states, "transitions": st.transitions, "traces_validated_against_impl": st.sequences,
        "evaluations": st.states + acc.get("faults"), "distinct_nontrivial": st.states,
        "samples": roots.iter().rev().take(3).map(|(n, e)| json!({"root": n, "notation": crate::report::ff(&e).chars().take(80).collect::<String>()})).collect::<Vec<_>>(),
        "rule": "BFS over {compress, compress_subject, uncompress, uncompress_subject, add, wrap, encode-decode}; at every state: digest invariance of the four (un)compress operations, round-trip and idempotence laws, also with an assertion added in between; faults: every bit of the compressed data / checksum / size, digest replaced, content-vs-declared-digest mismatches, non-envelope payloads",
        "exhaustive": true, "bounds": {"depth": depth, "root_tree_weight": rw, "fault_family": fam.len()},
        "bfs": {"states_per_depth": st.per_depth, "merged": st.merged, "refused": st.refused}});
    finish(ctx, acc, "model_checking", cov, vec!["a flip that does not change the inflated bytes is not corruption: Ok identical to the original is accepted".into()])
}
