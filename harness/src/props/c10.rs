//! C10 - every recipient, and only a recipient, can open (DESIGN section 4, C10).
use crate::bind;
use crate::families;
use crate::refmodel::tree::M;
use crate::report::{Acc, Ctx, catch, finish};
use super::c09::{identity, Id};
use bc_envelope::prelude::*;
use bc_envelope::base::envelope::EnvelopeCase;
use bc_components::{Decrypter, EncapsulationPrivateKey, EncapsulationPublicKey, EncapsulationScheme, Encrypter, PrivateKeyBase, SymmetricKey};
use rayon::prelude::*;
use serde_json::json;

struct Kp { name: &'static str, sk: EncapsulationPrivateKey, pk: EncapsulationPublicKey }
fn x25519(name: &'static str) -> Kp {
    let sk = PrivateKeyBase::from_data(format!("enc-seed-{name}-0123456789").as_bytes()).x25519_private_key();
    let pk = sk.public_key();
    Kp { name, sk: EncapsulationPrivateKey::X25519(sk), pk: EncapsulationPublicKey::X25519(pk) }
}
fn mlkem(name: &'static str, s: EncapsulationScheme) -> Kp { let (sk, pk) = s.keypair(); Kp { name, sk, pk } }
fn lists(n: usize, len: usize) -> Vec<Vec<usize>> { let mut out = vec![vec![]]; for _ in 0..len { let mut nx = vec![]; for s in &out { for i in 0..n { let mut t: Vec<usize> = s.clone(); t.push(i); nx.push(t) } } out = nx } out }

pub fn run(ctx: &Ctx) -> i32 {
    let th = ctx.tier.thorough();
    // listed candidates: a, b (X25519), c (ML-KEM-512) [+ d ML-KEM-768, e ML-KEM-1024 thorough]; never listed: u (X25519), v (ML-KEM-512)
    let mut keys = vec![x25519("a"), x25519("b"), mlkem("c", EncapsulationScheme::MLKEM512), mlkem("d", EncapsulationScheme::MLKEM768)];
    if th { keys.push(mlkem("e", EncapsulationScheme::MLKEM1024)); }
    let nlisted = keys.len();
    keys.push(x25519("u")); keys.push(mlkem("v", EncapsulationScheme::MLKEM512));
    if th { keys.push(mlkem("w", EncapsulationScheme::MLKEM768)); }
    let trees = { let mut t = families::plain(if th { 5 } else { 4 }); t.extend(families::nsn()); t.extend(families::decorated_obscured()); if th { t.extend(families::valued()) } else { t.extend(families::valued_few()) } t };
    let maxlen = if th { 4 } else { 3 };
    let mut all_lists = vec![]; for l in 1..=maxlen { all_lists.extend(lists(nlisted, l)) }
    let acc = trees.par_iter().enumerate().with_max_len(1).map(|(ti, m)| {
        let mut acc = Acc::new();
        let e = bind::build(m, 0);
        let subj_obs = bind::observe(&e.subject());
        for idx in &all_lists {
            let pubs: Vec<&dyn Encrypter> = idx.iter().map(|&i| &keys[i].pk as &dyn Encrypter).collect();
            let names: Vec<&str> = idx.iter().map(|&i| keys[i].name).collect();
            let cid = |s: &str| format!("tree{ti}/recipients{:?}/{s}", names);
            acc.inc("recipient_lists");
            let enc = match catch(|| e.encrypt_subject_to_recipients(&pubs)) { Ok(Ok(x)) => x, Ok(Err(er)) => { acc.viol("C10|encrypt_subject_to_recipients|refused", format!("{er}"), cid("encrypt"), json!({"tree": m.show()})); continue } Err(p) => { acc.viol(format!("C10|encrypt|panic|{}", p.loc), p.msg.clone(), cid("encrypt"), json!({})); continue } };
            if bind::dg(&enc.subject()) != bind::dg(&e.subject()) { acc.viol("C10|encrypt_subject_to_recipients|subject-digest", "the encrypted envelope's subject does not keep the original subject's digest", cid("digest"), json!({"tree": m.show()})) }
            if !matches!(enc.subject().case(), EnvelopeCase::Encrypted(_)) { acc.viol("C10|encrypt_subject_to_recipients|not-encrypted", "subject not encrypted", cid("case"), json!({})) }
            let wrapped = catch(|| { let mut w = e.wrap_envelope(); w = w.encrypt_subject_to_recipients(&pubs).unwrap(); w });
            for (k, kp) in keys.iter().enumerate() {
                let listed = idx.contains(&k);
                acc.inc("decrypt_attempts");
                let scheme = format!("{:?}", kp.sk.encapsulation_scheme());
                match catch(|| enc.decrypt_subject_to_recipient(&kp.sk as &dyn Decrypter)) {
                    Err(p) => acc.viol(format!("C10|decrypt_subject_to_recipient|panic|{}", p.loc), format!("key {} ({scheme}): {}", kp.name, p.msg), cid(&format!("key-{}", kp.name)), json!({"tree": m.show(), "recipients": names})),
                    Ok(Ok(d)) => {
                        if !listed { acc.viol(format!("C10|decrypt_subject_to_recipient|unlisted|{scheme}|decrypts"), "a key that is not a recipient decrypted the subject", cid(&format!("key-{}", kp.name)), json!({"tree": m.show()})) }
                        else if bind::observe(&d.subject()) != subj_obs { acc.viol(format!("C10|decrypt_subject_to_recipient|listed|{scheme}|differs"), "decrypted subject is not the original subject", cid(&format!("key-{}", kp.name)), json!({"tree": m.show(), "got": hex::encode(d.to_cbor_data())})) }
                        else { acc.nontrivial(&(ti, idx.clone(), k)) }
                    }
                    Ok(Err(er)) => if listed { acc.viol(format!("C10|decrypt_subject_to_recipient|listed|{scheme}|refused"), format!("a listed recipient cannot decrypt: {er}"), cid(&format!("key-{}", kp.name)), json!({"tree": m.show(), "recipients": names})) },
                }
                if let Ok(w) = &wrapped {
                    acc.inc("decrypt_attempts");
                    match catch(|| w.decrypt_to_recipient(&kp.sk)) {
                        Err(p) => acc.viol(format!("C10|decrypt_to_recipient|panic|{}", p.loc), p.msg.clone(), cid(&format!("wrapped/key-{}", kp.name)), json!({})),
                        Ok(Ok(d)) => if !listed { acc.viol(format!("C10|decrypt_to_recipient|unlisted|{scheme}|decrypts"), "unlisted key opened the wrapped form", cid(&format!("wrapped/key-{}", kp.name)), json!({})) } else if !d.is_identical_to(&e) || bind::observe(&d) != bind::observe(&e) { acc.viol(format!("C10|decrypt_to_recipient|listed|{scheme}|differs"), "wrap-and-encrypt form does not come back identical", cid(&format!("wrapped/key-{}", kp.name)), json!({})) },
                        Ok(Err(_)) => if listed { acc.viol(format!("C10|decrypt_to_recipient|listed|{scheme}|refused"), "listed recipient cannot open the wrapped form", cid(&format!("wrapped/key-{}", kp.name)), json!({})) },
                    }
                }
            }
        }
        // envelopes whose subject is already compressed (or that are compressed as a whole) can still be encrypted to recipients
        for (vn, ev) in [("compressed-subject", catch(|| e.compress_subject())), ("compressed-whole", catch(|| e.compress()))] {
            let Ok(Ok(ev)) = ev else { continue };
            let want = bind::observe(&ev.subject());
            for idx in all_lists.iter().filter(|l| l.len() <= 2) {
                let pubs: Vec<&dyn Encrypter> = idx.iter().map(|&i| &keys[i].pk as &dyn Encrypter).collect();
                let names: Vec<&str> = idx.iter().map(|&i| keys[i].name).collect();
                acc.inc("recipient_lists");
                let cid = |s: &str| format!("tree{ti}/{vn}/recipients{:?}/{s}", names);
                match catch(|| ev.encrypt_subject_to_recipients(&pubs)) {
                    Err(p) => acc.viol(format!("C10|encrypt|panic|{}", p.site), p.msg.clone(), cid("encrypt"), json!({})),
                    Ok(Err(er)) => acc.viol(format!("C10|encrypt_subject_to_recipients|{vn}|refused"), format!("an envelope with a compressed subject cannot be encrypted to recipients: {er}"), cid("encrypt"), json!({"tree": m.show()})),
                    Ok(Ok(enc)) => for (k, kp) in keys.iter().enumerate() {
                        acc.inc("decrypt_attempts");
                        let listed = idx.contains(&k);
                        match catch(|| enc.decrypt_subject_to_recipient(&kp.sk)) {
                            Ok(Ok(d)) => if !listed || bind::observe(&d.subject()) != want { acc.viol(format!("C10|decrypt_subject_to_recipient|{vn}|{}", if listed { "differs" } else { "unlisted-decrypts" }), "wrong outcome on a compressed subject", cid(&format!("key-{}", kp.name)), json!({"tree": m.show()})) },
                            Ok(Err(_)) => if listed { acc.viol(format!("C10|decrypt_subject_to_recipient|{vn}|listed-refused"), "listed recipient cannot decrypt", cid(&format!("key-{}", kp.name)), json!({"tree": m.show()})) },
                            Err(p) => acc.viol(format!("C10|decrypt_subject_to_recipient|panic|{}", p.site), p.msg.clone(), cid(&format!("key-{}", kp.name)), json!({})),
                        }
                    },
                }
            }
        }
        // the wrap-and-encrypt convenience pair itself, on every tree (wrapped inputs included)
        for (k, kp) in keys.iter().enumerate().take(nlisted) {
            acc.inc("decrypt_attempts");
            let cid = |s: &str| format!("tree{ti}/encrypt_to_recipient/{}/{s}", kp.name);
            match catch(|| { let enc = e.encrypt_to_recipient(&kp.pk); let dec = enc.decrypt_to_recipient(&kp.sk); (enc, dec) }) {
                Err(p) => acc.viol(format!("C10|encrypt_to_recipient|panic|{}", p.site), p.msg.clone(), cid("roundtrip"), json!({"tree": m.show()})),
                Ok((enc, Ok(d))) => {
                    if bind::observe(&d) != bind::observe(&e) || !d.is_identical_to(&e) { acc.viol("C10|encrypt_to_recipient|listed|differs", "decrypt_to_recipient(encrypt_to_recipient(e)) is not identical to e", cid("roundtrip"), json!({"tree": m.show(), "got": crate::report::ff(&d)})) }
                    if bind::dg(&enc.subject()) != crate::refmodel::sha256::sha256(&m.digest()) { acc.viol("C10|encrypt_to_recipient|subject-digest", "the encrypted subject does not carry the digest of the wrapped original", cid("digest"), json!({"tree": m.show()})) }
                    for (o, op) in keys.iter().enumerate() { if o != k { if let Ok(Ok(_)) = catch(|| enc.decrypt_to_recipient(&op.sk)) { acc.viol("C10|encrypt_to_recipient|unlisted|decrypts", "another key opened it", cid(&format!("other-{}", op.name)), json!({})) } } }
                }
                Ok((_, Err(er))) => acc.viol("C10|encrypt_to_recipient|listed|refused", format!("{er}"), cid("roundtrip"), json!({"tree": m.show()})),
            }
        }
        // the doc(hidden) *_opt variants (fixed nonce) must behave like the plain calls
        for (k, kp) in keys.iter().enumerate().take(nlisted) {
            acc.inc("decrypt_attempts");
            let n = bind::nonce0();
            let cid = |s: &str| format!("tree{ti}/opt-variants/{}/{s}", kp.name);
            let r = catch(|| {
                let a = e.encrypt_subject_to_recipient_opt(&kp.pk, Some(&n))?.decrypt_subject_to_recipient(&kp.sk)?;
                let b = e.encrypt_subject_to_recipients_opt(&[&kp.pk as &dyn Encrypter], Some(&n))?.decrypt_subject_to_recipient(&kp.sk)?;
                let ck = SymmetricKey::from_data([0x44; 32]);
                let c = e.encrypt_subject(&ck)?.add_recipient_opt(&kp.pk, &ck, Some(&n)).decrypt_subject_to_recipient(&kp.sk)?;
                anyhow::Ok((a, b, c))
            });
            match r {
                Ok(Ok((a, b, c))) => for (vn, x) in [("encrypt_subject_to_recipient_opt", a), ("encrypt_subject_to_recipients_opt", b), ("add_recipient_opt", c)] { if bind::observe(&x.subject()) != subj_obs { acc.viol(format!("C10|{vn}|listed|differs"), "the fixed-nonce variant does not round-trip the subject", cid(vn), json!({"tree": m.show()})) } },
                Ok(Err(er)) => acc.viol("C10|opt-variants|listed|refused", format!("{er}"), cid("refused"), json!({"tree": m.show()})),
                Err(p) => acc.viol(format!("C10|opt-variants|panic|{}", p.site), p.msg.clone(), cid("panic"), json!({})),
            }
            let _ = k;
        }
        // later add_recipient with the content key: earlier recipients still succeed, the new one too
        let ck = SymmetricKey::from_data([0x33; 32]);
        for first in 0..nlisted { for later in 0..nlisted {
            acc.inc("add_recipient_cases");
            let cid = |s: &str| format!("tree{ti}/add_recipient/{}+{}/{s}", keys[first].name, keys[later].name);
            let r = catch(|| e.encrypt_subject(&ck).unwrap().add_recipient(&keys[first].pk, &ck).add_recipient(&keys[later].pk, &ck));
            let Ok(enc) = r else { acc.viol("C10|add_recipient|panic", "panic", cid("build"), json!({})); continue };
            if bind::dg(&enc.subject()) != bind::dg(&e.subject()) { acc.viol("C10|add_recipient|subject-digest", "subject digest changed", cid("digest"), json!({})) }
            for (k, kp) in keys.iter().enumerate() {
                let listed = k == first || k == later;
                match catch(|| enc.decrypt_subject_to_recipient(&kp.sk)) {
                    Err(p) => acc.viol(format!("C10|decrypt_subject_to_recipient|panic|{}", p.loc), p.msg.clone(), cid(&format!("key-{}", kp.name)), json!({"recipients": [keys[first].name, keys[later].name], "key": kp.name})),
                    Ok(Ok(d)) => if !listed || bind::observe(&d.subject()) != subj_obs { acc.viol(format!("C10|add_recipient|{}", if listed { "listed|differs" } else { "unlisted|decrypts" }), "wrong outcome after add_recipient", cid(&format!("key-{}", kp.name)), json!({})) },
                    Ok(Err(_)) => if listed { acc.viol("C10|add_recipient|listed|refused", "a recipient (earlier or later) cannot decrypt after add_recipient", cid(&format!("key-{}", kp.name)), json!({"recipients": [keys[first].name, keys[later].name], "key": kp.name})) },
                }
            }
        } }
        if ti == (ctx.seed as usize % 11) { acc.sample(json!({"tree": m.show(), "recipient_lists": all_lists.len(), "keys_tried": keys.iter().map(|k| k.name).collect::<Vec<_>>()})) }
        acc
    }).reduce(Acc::new, Acc::merge);
    // seal / unseal over sender x recipient scheme pairs
    let senders: Vec<Id> = if th { vec![identity("S1", "schnorr"), identity("S2", "ed25519"), identity("S3", "ssh-ed25519"), identity("S4", "mldsa44"), identity("S5", "ecdsa")] } else { vec![identity("S1", "schnorr"), identity("S2", "ed25519"), identity("S3", "ssh-ed25519"), identity("S4", "mldsa44")] };
    let wrong_sender = identity("SX", "ed25519");
    let sub = families::plain(3);
    let mut acc2 = Acc::new();
    for (si, s) in senders.iter().enumerate() {
        for (ri, r) in keys.iter().take(nlisted).enumerate() {
            for (ti, m) in sub.iter().enumerate().filter(|(i, _)| th || i % 4 == 0) {
                let e = bind::build(m, 0);
                acc2.inc("seal_cases");
                let cid = |x: &str| format!("seal/{}/{}/tree{ti}/{x}", s.scheme, r.name);
                let sealed = match catch(|| e.seal_opt(&s.sk, &r.pk, s.opts.clone())) { Ok(x) => x, Err(p) => { acc2.viol(format!("C10|seal|panic|{}", p.loc), p.msg.clone(), cid("seal"), json!({})); continue } };
                match catch(|| sealed.unseal(&s.pk, &r.sk)) {
                    Ok(Ok(u)) => if !u.is_identical_to(&e) || bind::observe(&u) != bind::observe(&e) { acc2.viol(format!("C10|unseal|{}|differs", s.scheme), "unseal does not return the original", cid("unseal"), json!({})) } else { acc2.nontrivial(&("seal", si, ri, ti)) },
                    Ok(Err(er)) => acc2.viol(format!("C10|unseal|{}|refused", s.scheme), format!("unseal with the right keys failed: {er}"), cid("unseal"), json!({})),
                    Err(p) => acc2.viol(format!("C10|unseal|panic|{}", p.loc), p.msg.clone(), cid("unseal"), json!({})),
                }
                if let Ok(Ok(_)) = catch(|| sealed.unseal(&wrong_sender.pk, &r.sk)) { acc2.viol("C10|unseal|wrong-sender|accepted", "unseal accepted a wrong sender key", cid("wrong-sender"), json!({})) }
                for (oi, o) in keys.iter().enumerate() { if oi != ri {
                    match catch(|| sealed.unseal(&s.pk, &o.sk)) {
                        Ok(Ok(_)) => acc2.viol("C10|unseal|wrong-recipient|accepted", "unseal accepted a wrong recipient key", cid(&format!("wrong-recipient-{}", o.name)), json!({})),
                        Ok(Err(_)) => {}
                        Err(p) => acc2.viol(format!("C10|unseal|panic|{}", p.loc), p.msg.clone(), cid(&format!("wrong-recipient-{}", o.name)), json!({"recipient": r.name, "key": o.name})),
                    }
                } }
            }
        }
    }
    let acc = acc.merge(acc2);
    let evals = acc.get("decrypt_attempts") + acc.get("add_recipient_cases") * keys.len() as u64 + acc.get("seal_cases");
    let cov = json!({"evaluations": evals,
        "rule": "tree x every recipient list (with repetition) up to the length bound over the listed keys x every private key (listed and never-listed) through decrypt_subject_to_recipient and the wrap form; add_recipient for every ordered pair; seal/unseal for every sender scheme x recipient scheme with right / wrong sender / wrong recipient; distinct = (tree, list, key) successful decryptions",
        "exhaustive": true, "bounds": {"tree_weight": if th { 5 } else { 4 }, "recipient_list_length": maxlen, "keys": keys.iter().map(|k| format!("{}:{:?}", k.name, k.sk.encapsulation_scheme())).collect::<Vec<_>>()}});
    let _ = M::Known(0);
    finish(ctx, acc, "exploration", cov, vec!["ML-KEM keys cannot be seeded; verdicts do not depend on key values".into(), "'any other private key' = the never-listed keys of the finite key set".into()])
}
