//! C04 - every envelope emitted is canonical and well-formed (DESIGN section 4, C04).
use crate::bind;
use crate::explore;
use crate::families;
use crate::invariants::check_tree;
use crate::refmodel::grammar;
use crate::report::{Acc, Ctx, finish};
use bc_envelope::prelude::*;
use serde_json::json;

pub fn state_invariant(e: &Envelope, last_op: &str, desc: &dyn Fn() -> String, acc: &mut Acc) {
    let o = bind::observe(e);
    let mut errs = vec![]; check_tree(&o, "", &mut errs);
    for (clause, path) in errs {
        acc.viol(format!("C04|{clause}|{last_op}"), format!("invariant '{clause}' broken at {path}"), desc(), json!({"envelope": hex::encode(e.to_cbor_data())}));
    }
    let bytes = e.to_cbor_data();
    match grammar::recognise(&bytes) {
        Err(r) => acc.viol(format!("C04|grammar:{}|{last_op}", r.0), format!("serialisation rejected by the independent recogniser: {}", r.0), desc(), json!({"envelope": hex::encode(&bytes)})),
        Ok((m, _)) => {
            if bind::expected(&m) != o { acc.viol(format!("C04|bytes-vs-structure|{last_op}"), "tree recognised from the bytes (digests recomputed from the bytes alone) differs from the structure the implementation holds", desc(), json!({"envelope": hex::encode(&bytes)})) }
        }
    }
    match Envelope::try_from_cbor_data(bytes.clone()) {
        Err(er) => acc.viol(format!("C04|own-output-rejected|{last_op}"), format!("decoder rejects the library's own output: {er}"), desc(), json!({"envelope": hex::encode(&bytes)})),
        Ok(r) => if r.to_cbor_data() != bytes || bind::observe(&r) != o { acc.viol(format!("C04|roundtrip-differs|{last_op}"), "decode(bytes) does not re-encode to the same bytes / structure", desc(), json!({"envelope": hex::encode(&bytes)})) },
    }
}
fn last_op_of(desc: &str) -> String { let x = desc.rsplit(" ; ").next().unwrap_or("").trim_end_matches(']').rsplit('[').next().unwrap_or("").to_string(); if x.is_empty() { "(root)".into() } else { x } }

pub fn run(ctx: &Ctx) -> i32 {
    let th = ctx.tier.thorough();
    let mut rm = families::plain(if th { 4 } else { 3 }); rm.extend(families::decode_only());
    let roots = explore::roots_from(&rm);
    let on_state = |e: &Envelope, desc: &dyn Fn() -> String, acc: &mut Acc| {
        // the op name is only needed for the signature when something is wrong: compute lazily
        let o = bind::observe(e);
        let mut errs = vec![]; check_tree(&o, "", &mut errs);
        let bytes = e.to_cbor_data();
        let rec_ok = matches!(grammar::recognise(&bytes), Ok((ref m, _)) if bind::expected(m) == o);
        let dec_ok = matches!(Envelope::try_from_cbor_data(bytes.clone()), Ok(ref r) if r.to_cbor_data() == bytes && bind::observe(r) == o);
        if !errs.is_empty() || !rec_ok || !dec_ok { let d = desc(); let op = last_op_of(&d); state_invariant(e, &op, &|| d.clone(), acc); }
        acc.inc("states_checked");
    };
    let ops_full = explore::ops_full();
    let depth = if th { 4 } else { 3 };
    let (st, acc1) = explore::explore(&roots, &ops_full, depth, &on_state, &|_, _, _, _, _| {}, Some("C04|receiver-mutated"));
    // the harness owns every choice: exploring again must give exactly the same counts (a mismatch is a machinery error, never a verdict)
    {
        let d2 = if th { depth - 1 } else { depth };
        let (a, _) = explore::explore(&roots, &ops_full, d2, &|_, _, _| {}, &|_, _, _, _, _| {}, None);
        let (b, _) = if d2 == depth { (explore::Stats { states: st.states, transitions: st.transitions, merged: st.merged, refused: st.refused, panics: st.panics, max_depth: st.max_depth, sequences: st.sequences, per_depth: st.per_depth.clone() }, Acc::new()) } else { explore::explore(&roots, &ops_full, d2, &|_, _, _| {}, &|_, _, _, _, _| {}, None) };
        if (a.states, a.transitions, a.merged, a.refused) != (b.states, b.transitions, b.merged, b.refused) || a.per_depth[..] != st.per_depth[..a.per_depth.len()] {
            eprintln!("MACHINERY: two explorations of the same space disagree: {:?} vs {:?}", (a.states, a.transitions, a.merged), (b.states, b.transitions, b.merged)); std::process::exit(2);
        }
    }
    let mut stats = json!({"full_alphabet": {"ops": ops_full.len(), "depth": depth, "states": st.states, "transitions": st.transitions, "states_per_depth": st.per_depth, "merged": st.merged, "refused": st.refused, "panics_counted_under_C16": st.panics, "complete_sequences": st.sequences}});
    let (mut states, mut transitions, mut sequences) = (st.states, st.transitions, st.sequences);
    let mut acc = acc1;
    if th {
        let ops_s = explore::ops_structural();
        let (s2, acc2) = explore::explore(&roots, &ops_s, 5, &on_state, &|_, _, _, _, _| {}, Some("C04|receiver-mutated"));
        stats["structural_alphabet"] = json!({"ops": ops_s.len(), "depth": 5, "states": s2.states, "transitions": s2.transitions, "states_per_depth": s2.per_depth, "merged": s2.merged, "refused": s2.refused, "complete_sequences": s2.sequences});
        states += s2.states; transitions += s2.transitions; sequences += s2.sequences;
        let mut a2 = acc2; a2.outcomes = a2.outcomes.into_iter().map(|(k, v)| (format!("structural/{k}"), v)).collect();
        acc = acc.merge(a2);
    }
    let samples: Vec<_> = roots.iter().take(3).map(|(n, _)| json!({"root": n, "sequence_example": [ops_full[0].name, ops_full[20].name, ops_full[30].name]})).collect();
    let cov = json!({"states": states, "transitions": transitions, "traces_validated_against_impl": sequences,
        "evaluations": states, "distinct_nontrivial": states,
        "rule": "state = distinct observed envelope (cases, digests, leaf bytes) reached by an operation sequence; every state is checked by independent digest recomputation, the independent CDDL/dCBOR recogniser on its bytes and a decode round trip; every transition is a real API call",
        "samples": samples, "exhaustive": true, "search": stats, "determinism_check": "the full-alphabet exploration was repeated (quick: same depth; thorough: depth-1, twice) and states / transitions / merges per depth were identical",
        "bounds": {"roots": roots.len(), "root_tree_weight": if th { 4 } else { 3 }}});
    finish(ctx, acc, "model_checking", cov, vec!["operations with random output use fixed material (fixed salt, fixed sealed message, Ed25519) so that equal state keys have equal futures".into(),
        "refused operations (Err) are self-loops".into()])
}
