//! C14 - equivalence and identity comparisons are exact (DESIGN section 4, C14).
use crate::bind::{self, O};
use crate::families;
use crate::refmodel::tree::{M, D};
use crate::report::{Acc, Ctx, catch, finish};
use bc_envelope::prelude::*;
use bc_components::SymmetricKey;
use rayon::prelude::*;
use serde_json::json;
use std::collections::HashSet;

fn pat_class(o: &O) -> String { let mut ks: Vec<&'static str> = vec![]; fn rec(o: &O, ks: &mut Vec<&'static str>) { if let O::Obscured(..) = o { ks.push(o.case_name()) } for (_, c) in o.children() { rec(c, ks) } } rec(o, &mut ks); ks.sort(); ks.dedup(); if ks.is_empty() { "plain".into() } else { ks.join("+") } }

pub fn run(ctx: &Ctx) -> i32 {
    let th = ctx.tier.thorough();
    let w = if th { 6 } else { 5 };
    let mut trees = families::plain(w); trees.extend(families::nsn()); trees.extend(families::valued().into_iter().enumerate().filter(|(i, _)| th || i % 6 < 2).map(|(_, m)| m)); // quick: each value as subject and as object
    { // bases with two and three assertions (weight 8 and 11), so that regrouped near misses and several same-digest positions occur
        use crate::refmodel::tree::{assertion as asr, leaf_text as lt, node};
        let (a, one, k) = (lt("a"), M::Leaf(crate::refmodel::dcbor::V::U(1)), M::Known(1));
        trees.push(node(a.clone(), vec![asr(a.clone(), one.clone()), asr(one.clone(), a.clone())]));
        trees.push(node(a.clone(), vec![asr(a.clone(), a.clone()), asr(a.clone(), one.clone()), asr(k.clone(), a.clone())]));
        trees.push(node(M::Wrapped(Box::new(a.clone())), vec![asr(k.clone(), a.clone()), asr(a.clone(), k.clone())]));
    }
    let (k0, k1) = (bind::key0(), bind::key1());
    let unrelated_m: Vec<M> = vec![families::plain(3)[5].clone(), M::Wrapped(Box::new(crate::refmodel::tree::leaf_text("zz"))), crate::refmodel::tree::leaf_text("zz"), M::Known(77), crate::refmodel::tree::assertion(crate::refmodel::tree::leaf_text("zp"), crate::refmodel::tree::leaf_text("zo"))];
    let acc = trees.par_iter().enumerate().with_max_len(1).map(|(ti, m)| {
        let mut acc = Acc::new();
        acc.inc("bases");
        let e = bind::build(m, 0);
        let ds = m.distinct_digests(); let k = ds.len();
        let mut fam: Vec<(Envelope, D)> = vec![(e.clone(), m.digest())];
        let mut seen: HashSet<O> = HashSet::new(); seen.insert(bind::observe(&e));
        let actions = |i: usize| match i { 0 => ObscureAction::Elide, 1 => ObscureAction::Encrypt(k0.clone()), 2 => ObscureAction::Encrypt(k1.clone()), _ => ObscureAction::Compress };
        let mut first: Vec<Envelope> = vec![];
        for mask in 1u32..(1u32 << k) {
            let t = bind::dset(&(0..k).filter(|i| mask >> i & 1 == 1).map(|i| ds[i]).collect::<Vec<_>>());
            for a in 0..4 { if let Ok(r) = catch(|| e.elide_removing_set_with_action(&t, &actions(a))) { if a == 2 || seen.insert(bind::observe(&r)) { first.push(r) } } }
        }
        // the law itself: obscuring any PRESENT element - of the original or of a variant that already has obscured parts - gives a result that is
        // equivalent to, and not identical with, what it was applied to (whatever the action)
        fn visible(o: &O, out: &mut Vec<D>) { if !matches!(o, O::Obscured(..)) { out.push(o.digest()); for (_, c) in o.children() { visible(c, out) } } }
        for (fi, f) in std::iter::once(&e).chain(first.iter().take(if th { 80 } else { 30 })).enumerate() {
            let mut vis = vec![]; visible(&bind::observe(f), &mut vis); vis.sort(); vis.dedup();
            for d in vis { for a in [0usize, 1, 3] {
                acc.inc("obscure_a_present_element");
                let cid = || format!("base{ti}/variant{fi}/obscure-{}-{a}", hex::encode(&d[..4]));
                let det = || json!({"base": m.show(), "before": crate::report::ff(f), "before_bytes": hex::encode(f.to_cbor_data()), "target": hex::encode(d), "action": (["Elide", "Encrypt", "", "Compress"][a])});
                match catch(|| { let r = f.elide_removing_set_with_action(&bind::dset(&[d]), &actions(a)); (f.is_equivalent_to(&r), f.is_identical_to(&r), *f == r, f.structural_digest() == r.structural_digest()) }) {
                    Ok((eq, id, eqq, sd)) => {
                        if !eq { acc.viol(format!("C14|obscure-present|{}|not-equivalent", ["elide", "encrypt", "", "compress"][a]), "the result of obscuring a present element is not equivalent to the original", cid(), det()) }
                        if id || eqq || sd { acc.viol(format!("C14|obscure-present|{}|still-identical", ["elide", "encrypt", "", "compress"][a]), "the result of obscuring a present element is reported identical to what it was applied to", cid(), det()) }
                    }
                    Err(_) => acc.inc("panics_counted_under_C02_C16"),
                }
            } }
        }
        // second pass: two-action mixes
        let mut second = vec![];
        for f in first.iter().take(if th { 120 } else { 60 }) { for d in &ds { let t = bind::dset(&[*d]); for a in [0usize, 1, 3] { if let Ok(r) = catch(|| f.elide_removing_set_with_action(&t, &actions(a))) { if seen.insert(bind::observe(&r)) { second.push(r) } } } } }
        // position-wise variants: exactly ONE position obscured even when equal content occurs elsewhere (target-set elision cannot build these)
        fn positions(m: &M, path: &mut Vec<usize>, out: &mut Vec<Vec<usize>>) {
            out.push(path.clone());
            match m { M::Wrapped(e) => { path.push(0); positions(e, path, out); path.pop(); } M::Assertion(p, o) => { path.push(0); positions(p, path, out); path.pop(); path.push(1); positions(o, path, out); path.pop(); }
                M::Node(s, a) => { path.push(0); positions(s, path, out); path.pop(); for (i, x) in a.iter().enumerate() { path.push(i + 1); positions(x, path, out); path.pop(); } } _ => {} }
        }
        fn obscure_at(m: &M, path: &[usize], kind: crate::refmodel::tree::Kind) -> M {
            if path.is_empty() { return M::Obscured(kind, m.digest(), Some(Box::new(m.clone()))) }
            match m { M::Wrapped(e) => M::Wrapped(Box::new(obscure_at(e, &path[1..], kind))),
                M::Assertion(p, o) => if path[0] == 0 { M::Assertion(Box::new(obscure_at(p, &path[1..], kind)), o.clone()) } else { M::Assertion(p.clone(), Box::new(obscure_at(o, &path[1..], kind))) },
                M::Node(s, a) => if path[0] == 0 { M::Node(Box::new(obscure_at(s, &path[1..], kind)), a.clone()) } else { let mut a2 = a.clone(); a2[path[0] - 1] = obscure_at(&a[path[0] - 1], &path[1..], kind); M::Node(s.clone(), a2) },
                _ => m.clone() }
        }
        let mut pos = vec![]; positions(m, &mut vec![], &mut pos);
        let mut positional = vec![];
        for pth in pos.iter().skip(1) { for kind in [crate::refmodel::tree::Kind::Elided, crate::refmodel::tree::Kind::Compressed, crate::refmodel::tree::Kind::Encrypted] {
            if let Ok(v) = catch(|| bind::build(&obscure_at(m, pth, kind), 0)) { if bind::dg(&v) == m.digest() && seen.insert(bind::observe(&v)) { positional.push(v) } }
        } }
        acc.add("positional_variants", positional.len() as u64);
        for x in positional.into_iter().take(60) { fam.push((x, m.digest())) }
        let cap = if th { 260 } else { 150 };
        for x in first.into_iter().chain(second.into_iter()).take(cap) { fam.push((x, m.digest())) }
        let n0 = fam.len();
        for i in 0..n0.min(50) { if let Ok(d) = Envelope::try_from_cbor_data(fam[i].0.to_cbor_data()) { fam.push((d, m.digest())) } }
        for um in &unrelated_m { if um.digest() != m.digest() { fam.push((bind::build(um, 0), um.digest())) } }
        // near misses: the same subject and assertions grouped differently (a node whose subject is a node) - different digest, so neither
        // equivalent nor identical nor == to the flat form
        if let M::Node(sub, asrt) = m { if asrt.len() >= 2 {
            for cut in 1..asrt.len() {
                let nested = M::Node(Box::new(M::Node(sub.clone(), asrt[..cut].to_vec())), asrt[cut..].to_vec());
                if nested.digest() != m.digest() { if let Ok(v) = catch(|| bind::build_route(&nested, bind::Route::Decode)) { acc.inc("regrouped_near_misses"); fam.push((v, nested.digest())) } }
            }
        } }
        let pats: Vec<O> = fam.iter().map(|x| bind::observe(&x.0)).collect();
        let sds: Vec<Digest> = fam.iter().map(|x| x.0.structural_digest()).collect();
        let n = fam.len();
        for i in 0..n { for j in 0..n {
            acc.inc("ordered_pairs");
            let exp_equiv = fam[i].1 == fam[j].1;
            let exp_ident = exp_equiv && pats[i] == pats[j];
            let got = catch(|| (fam[i].0.is_equivalent_to(&fam[j].0), fam[i].0.is_identical_to(&fam[j].0), fam[i].0 == fam[j].0));
            let cid = || format!("base{ti}/pair{i},{j}");
            let det = || json!({"base": m.show(), "left": crate::report::ff(&fam[i].0), "right": crate::report::ff(&fam[j].0), "left_bytes": hex::encode(fam[i].0.to_cbor_data()), "right_bytes": hex::encode(fam[j].0.to_cbor_data())});
            let pc = || format!("{}~{}", pat_class(&pats[i]), pat_class(&pats[j]));
            match got {
                Err(p) => acc.viol(format!("C14|panic|{}", p.loc), p.msg.clone(), cid(), det()),
                Ok((ge, gi, gq)) => {
                    if ge != exp_equiv { acc.viol(format!("C14|is_equivalent_to|{}|expected-{exp_equiv}", pc()), "equivalence verdict differs from digest equality", cid(), det()) }
                    if gi != exp_ident { acc.viol(format!("C14|is_identical_to|{}|expected-{exp_ident}", pc()), "identity verdict differs from (equivalent and same obscuration pattern)", cid(), det()) }
                    if gq != exp_ident { acc.viol(format!("C14|eq|{}|expected-{exp_ident}", pc()), "== differs from identity", cid(), det()) }
                    if (sds[i] == sds[j]) != exp_ident { acc.viol(format!("C14|structural_digest|{}|expected-{exp_ident}", pc()), "structural digest equality differs from identity", cid(), det()) }
                    if exp_equiv && !exp_ident { acc.inc("equivalent_not_identical_pairs") }
                }
            }
        } }
        // triples on a sub-family: transitivity of the implementation's own verdicts
        let sub = n.min(if th { 40 } else { 24 });
        for i in 0..sub { for j in 0..sub { if fam[i].0.is_identical_to(&fam[j].0) { for l in 0..sub { acc.inc("triples"); if fam[j].0.is_identical_to(&fam[l].0) && !fam[i].0.is_identical_to(&fam[l].0) { acc.viol("C14|transitivity|identity", "identity is not transitive", format!("base{ti}/triple{i},{j},{l}"), json!({"base": m.show()})) } } } } }
        acc.nontrivial(&ti);
        for p in &pats { acc.nontrivial(p) }
        if ti % 29 == (ctx.seed as usize % 29) { acc.sample(json!({"base": m.show(), "variants": n, "ordered_pairs": n * n})) }
        acc
    }).reduce(Acc::new, Acc::merge);
    // wide / deep shapes: the original, single-target variants under four actions at positions from both ends of the digest list, a decoded copy
    // of each, and the shape with one assertion less; all ordered pairs
    let wide = families::wide_all(th);
    let accw = wide.par_iter().with_max_len(1).map(|(wn, m)| {
        let mut acc = Acc::new();
        let Ok(e) = catch(|| bind::build(m, 0)) else { return acc };
        acc.inc("wide_bases");
        let ds = m.distinct_digests();
        let picks: Vec<usize> = (0..ds.len()).filter(|i| *i < 4 || i % 61 == 0 || *i + 3 >= ds.len()).collect();
        let actions = |i: usize| match i { 0 => ObscureAction::Elide, 1 => ObscureAction::Encrypt(k0.clone()), 2 => ObscureAction::Encrypt(k1.clone()), _ => ObscureAction::Compress };
        let mut fam: Vec<(Envelope, D)> = vec![(e.clone(), m.digest())];
        let mut seen: HashSet<O> = HashSet::new(); seen.insert(bind::observe(&e));
        for &i in &picks { if ds[i] == m.digest() { continue } let t = bind::dset(&[ds[i]]); for a in 0..4 { if let Ok(r) = catch(|| e.elide_removing_set_with_action(&t, &actions(a))) { if a == 2 || seen.insert(bind::observe(&r)) { fam.push((r, m.digest())) } } } }
        let n0 = fam.len();
        for i in (0..n0).step_by(3) { if let Ok(d) = Envelope::try_from_cbor_data(fam[i].0.to_cbor_data()) { fam.push((d, m.digest())) } }
        if let M::Node(sub, asrt) = m { if asrt.len() >= 2 { let less = M::Node(sub.clone(), asrt[1..].to_vec()); fam.push((bind::build(&less, 0), less.digest())) } }
        let pats: Vec<O> = fam.iter().map(|x| bind::observe(&x.0)).collect();
        let sds: Vec<Digest> = fam.iter().map(|x| x.0.structural_digest()).collect();
        let n = fam.len();
        for i in 0..n { for j in 0..n {
            acc.inc("ordered_pairs");
            let exp_equiv = fam[i].1 == fam[j].1;
            let exp_ident = exp_equiv && pats[i] == pats[j];
            let cid = || format!("wide/{wn}/pair{i},{j}");
            let det = || json!({"shape": wn, "left_pattern": pat_class(&pats[i]), "right_pattern": pat_class(&pats[j]), "left_bytes_len": fam[i].0.to_cbor_data().len(), "right_bytes_len": fam[j].0.to_cbor_data().len()});
            let pc = || format!("{}~{}", pat_class(&pats[i]), pat_class(&pats[j]));
            match catch(|| (fam[i].0.is_equivalent_to(&fam[j].0), fam[i].0.is_identical_to(&fam[j].0), fam[i].0 == fam[j].0)) {
                Err(p) => acc.viol(format!("C14|panic|{}", p.loc), p.msg.clone(), cid(), det()),
                Ok((ge, gi, gq)) => {
                    if ge != exp_equiv { acc.viol(format!("C14|is_equivalent_to|wide|{}|expected-{exp_equiv}", pc()), "equivalence verdict differs from digest equality", cid(), det()) }
                    if gi != exp_ident { acc.viol(format!("C14|is_identical_to|wide|{}|expected-{exp_ident}", pc()), "identity verdict differs from (equivalent and same obscuration pattern)", cid(), det()) }
                    if gq != exp_ident { acc.viol(format!("C14|eq|wide|{}|expected-{exp_ident}", pc()), "== differs from identity", cid(), det()) }
                    if (sds[i] == sds[j]) != exp_ident { acc.viol(format!("C14|structural_digest|wide|{}|expected-{exp_ident}", pc()), "structural digest equality differs from identity", cid(), det()) }
                    if exp_equiv && !exp_ident { acc.inc("equivalent_not_identical_pairs") }
                }
            }
        } }
        acc.nontrivial(&("wide", wn.clone()));
        acc
    }).reduce(Acc::new, Acc::merge);
    let acc = acc.merge(accw);
    let evals = acc.get("ordered_pairs") + acc.get("triples");
    let cov = json!({"evaluations": evals,
        "rule": "wide / deep shapes (22..256 assertions, every count 1..72, depth sweeps): original + single-target variants under four actions + decoded copies + one-assertion-less, all ordered pairs; per base tree: variant family = {original, every obscuration pattern under Elide / Encrypt(k0) / Encrypt(k1) / Compress, two-action mixes, re-decoded copies, unrelated envelopes}; ALL ordered pairs judged by (model digest equality, observed pattern equality); triples for transitivity; distinct = distinct observed variants",
        "exhaustive": true, "bounds": {"tree_weight": w, "variants_cap_per_base": if th { 260 } else { 150 }}});
    let _ = SymmetricKey::from_data([0u8; 32]);
    finish(ctx, acc, "exploration", cov, vec!["the variant family of a base is capped; all ordered pairs of the capped family are compared".into()])
}
