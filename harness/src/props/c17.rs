//! C17 - salting decorrelates without changing content (DESIGN section 4, C17).
use crate::bind::{self, O};
use crate::refmodel::dcbor::V;
use crate::refmodel::grammar;
use crate::refmodel::tree::M;
use crate::report::{Acc, Ctx, catch, finish};
use bc_envelope::prelude::*;
use rayon::prelude::*;
use serde_json::json;
use std::collections::HashSet;

/// scripted generator: next_u64 answers are enumerated by the harness; bytes come from a per-script stream
pub struct Script { answers: Vec<u64>, i: usize, stream: u64 }
impl Script { pub fn new(answers: &[u64], stream: u64) -> Self { Script { answers: answers.to_vec(), i: 0, stream } } fn step(&mut self) -> u64 { self.stream = self.stream.wrapping_mul(6364136223846793005).wrapping_add(1442695040888963407); self.stream } }
impl rand::RngCore for Script {
    fn next_u32(&mut self) -> u32 { self.next_u64() as u32 }
    fn next_u64(&mut self) -> u64 { if self.i < self.answers.len() { self.i += 1; self.answers[self.i - 1] } else { self.step() } }
    fn fill_bytes(&mut self, dest: &mut [u8]) { for b in dest.iter_mut() { *b = (self.step() >> 33) as u8 } }
    fn try_fill_bytes(&mut self, dest: &mut [u8]) -> Result<(), rand::Error> { self.fill_bytes(dest); Ok(()) }
}
impl rand::CryptoRng for Script {}
impl bc_rand::RandomNumberGenerator for Script {}

fn scripts() -> Vec<Vec<u64>> {
    let b = [0u64, 1, 1 << 32, 1 << 63, u64::MAX - 1, u64::MAX, 0x5555_5555_5555_5555, 0xAAAA_AAAA_AAAA_AAAB];
    let mut v: Vec<Vec<u64>> = b.iter().map(|x| vec![*x]).collect();
    // a first answer of 0 / 1 / 2 lands in Lemire's rejection zone for ranges whose width is not a power of two: the second answer decides
    for first in [0u64, 1, 2] { for second in [0u64, u64::MAX, 1 << 63] { v.push(vec![first, second]) } }
    v
}
/// Some(salt length) if `res` = `orig` + exactly one new 'salt' assertion holding a Salt; Err(clause) otherwise
fn salt_added(orig: &O, res: &O) -> Result<usize, &'static str> {
    let (os, oa): (&O, Vec<O>) = match orig { O::Node(_, s, a) => (s, a.clone()), x => (x, vec![]) };
    let O::Node(_, rs, ra) = res else { return Err("result-not-a-node") };
    if **rs != *os { return Err("subject-changed") }
    let old: HashSet<&O> = oa.iter().collect();
    for x in &oa { if !ra.contains(x) { return Err("assertion-lost-or-changed") } }
    let new: Vec<&O> = ra.iter().filter(|x| !old.contains(x)).collect();
    if new.len() != 1 || ra.len() != oa.len() + 1 { return Err("not-exactly-one-new-assertion") }
    let O::Assertion(_, p, ob) = new[0] else { return Err("new-element-not-an-assertion") };
    if **p != bind::expected(&M::Known(15)) { return Err("new-assertion-predicate-not-salt") }
    let O::Leaf(_, bytes) = &**ob else { return Err("salt-object-not-a-leaf") };
    match grammar::parse_cbor(bytes) { Ok(V::Tag(40018, x)) => if let V::Bytes(b) = *x { Ok(b.len()) } else { Err("salt-object-not-bytes") }, _ => Err("salt-object-not-a-Salt") }
}
fn size_range(s: usize) -> (usize, usize) { let min = std::cmp::max(8, (s + 19) / 20); let max = std::cmp::max(min + 8, (s + 3) / 4); (min, max) }
fn leaf_of_size(n: usize) -> M { M::Leaf(V::Bytes((0..n).map(|i| (i * 7) as u8).collect())) }

pub fn run(ctx: &Ctx) -> i32 {
    let th = ctx.tier.thorough();
    let max_size = if th { 102_400 } else { 16_384 };
    let scr = scripts();
    // --- size-based salting over every serialised size
    let acc = (0..max_size).into_par_iter().map(|n| {
        let mut acc = Acc::new();
        let mut cases: Vec<(String, M)> = vec![("leaf".into(), leaf_of_size(n))];
        if n % (if th { 2048 } else { 41 }) == 0 { // nodes of the same sizes at some sizes: small subject, large assertions
            cases.push(("node-small-subject".into(), M::Node(Box::new(M::Leaf(V::U(1))), vec![M::Assertion(Box::new(M::Leaf(V::Text("p".into()))), Box::new(leaf_of_size(n)))])));
            cases.push(("wrapped".into(), M::Wrapped(Box::new(leaf_of_size(n)))));
        }
        for (cn, m) in cases {
            let s = m.encode().unwrap().len();
            if s > max_size + 16 { continue }
            let e = bind::build(&m, 0);
            let orig = bind::observe(&e);
            let (lo, hi) = size_range(s);
            let mut seen_lens: HashSet<usize> = HashSet::new();
            for (si, sc) in scr.iter().enumerate() {
                acc.inc("size_based_saltings");
                let cid = || format!("size/{cn}/s={s}/script{si}");
                match catch(|| e.add_salt_using(&mut Script::new(sc, si as u64 + 1))) {
                    Err(p) => acc.viol(format!("C17|add_salt|panic|{}", p.loc), p.msg.clone(), cid(), json!({"serialized_size": s})),
                    Ok(r) => match salt_added(&orig, &bind::observe(&r)) {
                        Err(cl) => acc.viol(format!("C17|add_salt|{cl}"), "salting did not add exactly one salt assertion to the unchanged envelope", cid(), json!({"serialized_size": s})),
                        Ok(l) => { seen_lens.insert(l); if l < lo || l > hi { acc.viol(format!("C17|add_salt|length-{}", if l < lo { "below-range" } else { "above-range" }), format!("salt length {l} outside the documented range {lo}..={hi} for serialized size {s}"), cid(), json!({"serialized_size": s, "length": l, "range": [lo, hi], "shape": cn})) } }
                    },
                }
            }
            if !seen_lens.contains(&lo) || !seen_lens.contains(&hi) { acc.inc("sizes_where_scripts_did_not_reach_both_ends") } else { acc.inc("sizes_with_both_ends_reached") }
            acc.nontrivial(&(cn.clone(), s));
        }
        acc
    }).reduce(Acc::new, Acc::merge);
    let mut acc = acc;
    if acc.get("sizes_with_both_ends_reached") == 0 { acc.viol("C17|machinery|scripts-vacuous", "no scripted answer reached both ends of any range", "scripts", json!({})) }
    // --- explicit lengths and ranges
    let base_models = vec![M::Leaf(V::Text("Hello".into())), M::Node(Box::new(M::Leaf(V::Text("s".into()))), vec![M::Assertion(Box::new(M::Leaf(V::Text("p".into()))), Box::new(M::Leaf(V::Text("o".into()))))]), M::Wrapped(Box::new(M::Known(1)))];
    for (bi, m) in base_models.iter().enumerate() {
        let e = bind::build(m, 0); let orig = bind::observe(&e);
        for n in 0..40usize {
            acc.inc("explicit_length_saltings");
            let cid = || format!("len/base{bi}/n={n}");
            match catch(|| e.add_salt_with_len_using(n, &mut Script::new(&[], 7))) {
                Err(p) => acc.viol(format!("C17|add_salt_with_len|panic|{}", p.loc), p.msg.clone(), cid(), json!({})),
                Ok(Err(_)) => if n >= 8 { acc.viol("C17|add_salt_with_len|refused-valid-length", format!("length {n} refused"), cid(), json!({})) },
                Ok(Ok(r)) => { if n < 8 { acc.viol("C17|add_salt_with_len|short-request-accepted", format!("a salt of {n} bytes (< 8) was accepted"), cid(), json!({})) } match salt_added(&orig, &bind::observe(&r)) { Ok(l) if l == n => {}, Ok(l) => acc.viol("C17|add_salt_with_len|wrong-length", format!("asked {n} got {l}"), cid(), json!({})), Err(cl) => acc.viol(format!("C17|add_salt_with_len|{cl}"), "content changed", cid(), json!({})) } }
            }
        }
        for a in 0..=24usize { for b in a..=24usize {
            let mut seen: HashSet<usize> = HashSet::new();
            for (si, sc) in scr.iter().enumerate() {
                acc.inc("range_saltings");
                let cid = || format!("range/base{bi}/{a}..={b}/script{si}");
                match catch(|| e.add_salt_in_range_using(&(a..=b), &mut Script::new(sc, si as u64 + 11))) {
                    Err(p) => acc.viol(format!("C17|add_salt_in_range|panic|{}", p.loc), p.msg.clone(), cid(), json!({})),
                    Ok(Err(_)) => if a >= 8 { acc.viol("C17|add_salt_in_range|refused-valid-range", format!("{a}..={b} refused"), cid(), json!({})) },
                    Ok(Ok(r)) => { if a < 8 { acc.viol("C17|add_salt_in_range|short-request-accepted", format!("range {a}..={b} starting below 8 accepted"), cid(), json!({})) } match salt_added(&orig, &bind::observe(&r)) { Ok(l) => { seen.insert(l); if l < a || l > b { acc.viol("C17|add_salt_in_range|length-outside-range", format!("{l} not in {a}..={b}"), cid(), json!({})) } }, Err(cl) => acc.viol(format!("C17|add_salt_in_range|{cl}"), "content changed", cid(), json!({})) } }
                }
            }
            if a >= 8 { if seen.contains(&a) && seen.contains(&b) { acc.inc("ranges_with_both_ends_reached") } else { acc.inc("ranges_where_scripts_did_not_reach_both_ends") } }
        } }
        // decorrelation: different byte streams => different digests at the salted element, at the root, and for the elided forms; equal scripts => equal
        let outs: Vec<Envelope> = (0..12u64).map(|st| e.add_salt_using(&mut Script::new(&[5], st))).collect();
        for i in 0..outs.len() { for j in 0..outs.len() {
            acc.inc("decorrelation_pairs");
            let same = i == j;
            let (di, dj) = (bind::dg(&outs[i]), bind::dg(&outs[j]));
            let (ei, ej) = (outs[i].elide().to_cbor_data(), outs[j].elide().to_cbor_data());
            if same { let again = e.add_salt_using(&mut Script::new(&[5], i as u64)); if bind::dg(&again) != di { acc.viol("C17|decorrelation|equal-scripts-differ", "equal scripted randomness gave different results (randomness other than the generator)", format!("decor/base{bi}/{i}"), json!({})) } }
            else if di == dj || ei == ej { acc.viol("C17|decorrelation|independent-saltings-equal", "two saltings with different random bytes have equal digests / elided forms", format!("decor/base{bi}/{i},{j}"), json!({})) }
        } }
    }
    // --- salted add (draws from the OS generator: repeated invocations are a smoke check of decorrelation, the structure is checked exactly)
    let pa = Envelope::new_assertion("sp", "so");
    // hosts: without the assertion, already holding its PLAIN copy, already holding a salted copy - a salted add must add a new element every time
    let host0 = Envelope::new("host").add_assertion("k", "v");
    let hosts: Vec<(&str, Envelope)> = vec![("fresh", host0.clone()), ("holds-plain-copy", host0.add_assertion_envelope(pa.clone()).unwrap()), ("holds-salted-copy", host0.add_assertion_envelope(pa.add_salt_instance(crate::explore::fixed_salt())).unwrap()), ("bare-leaf", Envelope::new("host")), ("big-host-4KB", Envelope::new("h".repeat(4000)).add_assertion("k", "v")), ("wide-host-40-assertions", (0..40).fold(Envelope::new("host"), |e, i| e.add_assertion(format!("k{i:02}"), i)))];
    for (hn, host) in &hosts {
    let horig = bind::observe(host);
    let horig = if let O::Node(..) = horig { horig } else { O::Node([0; 32], Box::new(horig), vec![]) };
    let variants: Vec<(&str, Envelope)> = vec![("plain", pa.clone()), ("elided", pa.elide()), ("compressed", pa.compress().unwrap()), ("encrypted", bind::obscure_whole(&pa, crate::refmodel::tree::Kind::Encrypted)), ("big-object", Envelope::new_assertion("sp", "x".repeat(1000))),
        // an assertion that already carries an assertion of its own, and the same with only its own subject (the assertion proper) obscured
        ("decorated", pa.add_assertion("note", "n")),
        ("decorated-compressed-subject", pa.add_assertion("note", "n").compress_subject().unwrap()),
        ("decorated-elided-subject", { let d = pa.add_assertion("note", "n"); d.elide_removing_target(&d.subject()) }),
        ("decorated-encrypted-subject", pa.add_assertion("note", "n").encrypt_subject_opt(&bind::key0(), Some(bind::nonce0())).unwrap())];
    for (vn, a) in &variants {
        let mut digests: HashSet<[u8; 32]> = HashSet::new();
        let reps = 16;
        for rep in 0..reps {
            acc.inc("salted_adds");
            let cid = || format!("salted-add/{hn}/{vn}/rep{rep}");
            let r = match catch(|| host.add_assertion_envelope_salted(a.clone(), true)) { Ok(Ok(r)) => r, Ok(Err(er)) => { acc.viol(format!("C17|add_assertion_salted|{vn}|refused"), format!("{er}"), cid(), json!({})); continue } Err(p) => { acc.viol(format!("C17|add_assertion_salted|panic|{}", p.loc), p.msg.clone(), cid(), json!({})); continue } };
            let ro = bind::observe(&r);
            let O::Node(_, rs, ra) = &ro else { acc.viol(format!("C17|add_assertion_salted|{vn}|not-a-node"), "", cid(), json!({})); continue };
            let O::Node(_, hs, ha) = &horig else { unreachable!() };
            if rs != hs || !ha.iter().all(|x| ra.contains(x)) || ra.len() != ha.len() + 1 { acc.viol(format!("C17|add_assertion_salted|{vn}|content-changed"), "subject or existing assertions changed, or not exactly one element added", cid(), json!({"got": crate::report::ff(&r)})); continue }
            let newel = ra.iter().find(|x| !ha.contains(x)).unwrap();
            // the added element: a node whose subject is the assertion as given, carrying exactly one salt assertion
            match salt_added(&bind::observe(a), newel) {
                Err(cl) => acc.viol(format!("C17|add_assertion_salted|{vn}|{cl}"), "the salted assertion does not carry exactly one salt assertion of its own over the unchanged assertion", cid(), json!({"got": crate::report::ff(&r)})),
                Ok(l) => { let s = a.to_cbor_data().len(); let (lo, hi) = size_range(s); if l < lo || l > hi { acc.viol(format!("C17|add_assertion_salted|{vn}|length-outside-range"), format!("salt length {l} outside {lo}..={hi} for assertion size {s}"), cid(), json!({})) } }
            }
            if *vn == "plain" || *vn == "big-object" {
                match catch(|| r.assertions_with_predicate("sp")) { Ok(f) => {
                    if f.len() != (if hn.starts_with("holds") { 2 } else { 1 }) { acc.viol(format!("C17|add_assertion_salted|{vn}|not-found-by-predicate"), "the salted assertion is not found by its predicate", cid(), json!({"got": crate::report::ff(&r)})) }
                    // what the lookup hands back is the added element itself - salt included - not a stripped copy with the digest of the unsalted assertion
                    else if !f.iter().any(|x| bind::observe(x) == *newel) { acc.viol(format!("C17|add_assertion_salted|{vn}|lookup-returns-the-assertion-without-its-salt"), "looking the salted assertion up by its predicate does not return the element that was added (with its salt)", cid(), json!({"got": crate::report::ff(&r)})) }
                }, Err(_) => acc.inc("panics_counted_under_C16") }
            }
            digests.insert(bind::dg(&r));
        }
        if digests.len() != reps { acc.viol(format!("C17|add_assertion_salted|{vn}|not-decorrelated"), format!("{reps} independent salted adds produced only {} distinct digests", digests.len()), format!("salted-add/{hn}/{vn}"), json!({})) }
        // unsalted add stays deterministic, and equals the plain add
        acc.inc("salted_adds");
        let u1 = host.add_assertion_envelope_salted(a.clone(), false).map(|x| x.to_cbor_data()).ok(); let u2 = host.add_assertion_envelope_salted(a.clone(), false).map(|x| x.to_cbor_data()).ok(); let u3 = host.add_assertion_envelope(a.clone()).map(|x| x.to_cbor_data()).ok();
        if u1 != u2 || u1 != u3 || u1.is_none() { acc.viol(format!("C17|add_assertion_salted|{vn}|unsalted-nondeterministic"), "unsalted add is not byte-identical across invocations / differs from add_assertion_envelope", format!("salted-add/{vn}/unsalted"), json!({})) }
    }
    }
    let host = host0.clone();
    for rep in 0..4 { acc.inc("salted_adds"); let r = host.add_assertion_salted("sp", "so", true); if r.assertions_with_predicate("sp").len() != 1 { acc.viol("C17|add_assertion_salted|pred-obj|not-found-by-predicate", "", format!("salted-add/predobj/rep{rep}"), json!({})) } let u = host.add_assertion_salted("sp", "so", false); if u.to_cbor_data() != host.add_assertion("sp", "so").to_cbor_data() { acc.viol("C17|add_assertion_salted|pred-obj|unsalted-differs", "", format!("salted-add/predobj/unsalted{rep}"), json!({})) } }
    { acc.inc("salted_adds"); let many = host.add_assertions_salted(&[pa.clone(), Envelope::new_assertion("sq", "sr")], true); if many.assertions().len() != 3 || many.assertions_with_predicate(known_values::SALT).len() != 0 { acc.viol("C17|add_assertions_salted|shape", "add_assertions_salted did not add two decorated assertions", "salted-add/many", json!({"got": crate::report::ff(&many)})) } }
    // production entry points (OS randomness): smoke, labelled as such
    let e = Envelope::new("Hello"); let orig = bind::observe(&e);
    for rep in 0..64 {
        acc.inc("production_entry_point_smoke");
        for (n, r) in [("add_salt", Ok(e.add_salt())), ("add_salt_with_len(16)", e.add_salt_with_len(16)), ("add_salt_in_range(8..=20)", e.add_salt_in_range(8..=20))] {
            match r { Ok(r) => match salt_added(&orig, &bind::observe(&r)) { Ok(l) => { let ok = match n { "add_salt" => { let (lo, hi) = size_range(e.to_cbor_data().len()); l >= lo && l <= hi } "add_salt_with_len(16)" => l == 16, _ => (8..=20).contains(&l) }; if !ok { acc.viol(format!("C17|{n}|length"), format!("length {l}"), format!("prod/{n}/rep{rep}"), json!({})) } } Err(cl) => acc.viol(format!("C17|{n}|{cl}"), "", format!("prod/{n}/rep{rep}"), json!({})) }, Err(er) => acc.viol(format!("C17|{n}|refused"), format!("{er}"), format!("prod/{n}/rep{rep}"), json!({})) }
        }
    }
    if e.add_salt_with_len(7).is_ok() || e.add_salt_in_range(7..=9).is_ok() { acc.viol("C17|production|short-request-accepted", "short salt accepted by the production entry point", "prod/short", json!({})) }
    acc.sample(json!({"serialized_size": 100, "documented_range": size_range(100), "scripts": scr.len()}));
    acc.sample(json!({"explicit_lengths": "0..40", "ranges": "all 0<=a<=b<=24", "first_answers": ["0", "1", "2^32", "2^63", "2^64-2", "2^64-1", "rejection-zone pairs"]}));
    let evals = acc.get("size_based_saltings") + acc.get("explicit_length_saltings") + acc.get("range_saltings") + acc.get("decorrelation_pairs") + acc.get("salted_adds") + acc.get("production_entry_point_smoke");
    let cov = json!({"evaluations": evals,
        "rule": "one envelope per serialised size (every value up to the bound; nodes and wrapped at some sizes) x scripted first answers of the generator (boundary values, rejection-zone pairs): result = original + exactly one 'salt' assertion with a length inside the documented range; explicit lengths 0..40; all ranges 0<=a<=b<=24; decorrelation over all pairs of 12 byte streams; salted add structure; distinct = (shape, serialised size)",
        "exhaustive": true, "bounds": {"max_serialized_size": max_size, "scripts": scr.len()},
        "not_enumerated": "that the OS generator yields independent bytes (trusted base); add_assertion_salted has no generator seam, its repeated invocations are a smoke check of decorrelation"});
    finish(ctx, acc, "exploration", cov, vec!["documented rule of Salt::new_for_size: min = max(8, ceil(0.05 s)), max = max(min + 8, ceil(0.25 s))".into(), "OS randomness is a trusted base".into()])
}
