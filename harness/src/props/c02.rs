//! C02 - obscuring never changes any digest (DESIGN section 4, C02).
use crate::bind::{self, O};
use crate::families;
use crate::refmodel::tree::{Kind, M, D};
use crate::report::{Acc, Ctx, catch, finish};
use bc_envelope::prelude::*;
use rayon::prelude::*;
use serde_json::json;
use std::collections::HashSet;

/// position-wise: every position present in both has the same digest; stops below an obscured element
fn same_digests(orig: &O, res: &O, path: &str) -> Option<(String, String)> {
    if orig.digest() != res.digest() { return Some((path.to_string(), format!("{}->{}", orig.case_name(), res.case_name()))) }
    if matches!(orig, O::Obscured(..)) || matches!(res, O::Obscured(..)) { return None }
    if orig.case_name() != res.case_name() { return Some((path.to_string(), format!("case {}->{}", orig.case_name(), res.case_name()))) }
    let (a, b) = (orig.children(), res.children());
    if a.len() != b.len() { return Some((path.to_string(), "element-count".into())) }
    for (i, ((n, x), (_, y))) in a.iter().zip(b.iter()).enumerate() { if let Some(d) = same_digests(x, y, &format!("{path}/{n}{i}")) { return Some(d) } }
    None
}
pub fn actions() -> Vec<(Kind, ObscureAction)> { vec![(Kind::Elided, ObscureAction::Elide), (Kind::Encrypted, ObscureAction::Encrypt(bind::key0())), (Kind::Compressed, ObscureAction::Compress)] }

fn menu(acc: &mut Acc, e: &Envelope, label: &dyn Fn() -> String, collect: Option<&mut Vec<Envelope>>, pass: &'static str) {
    let orig = bind::observe(e);
    let mut ds: Vec<D> = vec![]; collect_digests(&orig, &mut ds);
    ds.push(families::absent_digest());
    // a leaf that EMBEDS an envelope: the digests of the embedded envelope's own elements are not digests of this envelope's elements, so as
    // targets they are "absent" - and the leaf, being an element like any other, must stay as it is
    { fn has_embedded(o: &bind::O) -> bool { match o { bind::O::Leaf(_, b) => b.starts_with(&[0xd8, 0xc8]), _ => o.children().iter().any(|(_, c)| has_embedded(c)) } }
      if has_embedded(&orig) && ds.len() <= 7 { ds.extend(families::embedded_inner_digests()) } }
    let k = ds.len();
    let mut out = collect;
    for mask in families::masks(k) {
        let t: Vec<D> = (0..k).filter(|i| mask >> i & 1 == 1).map(|i| ds[i]).collect();
        let tset = bind::dset(&t);
        for revealing in [false, true] {
            for (kind, action) in actions() {
                acc.inc(if pass == "first" { "obscurings_first_pass" } else { "obscurings_second_pass" });
                let cid = || format!("{}/mask{mask}/rev{}/{kind:?}", label(), revealing as u8);
                match catch(|| e.elide_set_with_action(&tset, revealing, &action)) {
                    Ok(r) => {
                        let ro = bind::observe(&r);
                        if let Some((path, what)) = same_digests(&orig, &ro, "") {
                            acc.viol(format!("C02|{kind:?}|{}|{}", if revealing { "revealing" } else { "removing" }, what), format!("digest changed at {path}"), cid(),
                                json!({"original": hex::encode(e.to_cbor_data()), "targets": t.iter().map(hex::encode).collect::<Vec<_>>(), "result": hex::encode(r.to_cbor_data())}));
                        }
                        if ro != orig { acc.nontrivial(&(hex::encode(orig.digest()), mask, revealing, kind)); acc.inc("results_changed_something"); }
                        if let Some(v) = out.as_deref_mut() { v.push(r) }
                    }
                    Err(p) => {
                        if p.msg.contains("assertion failed") || p.msg.contains("assertion `left") {
                            acc.viol(format!("C02|{kind:?}|digest-assert|{}", p.loc), format!("digest-preservation assert fired: {}", p.msg), cid(), json!({"original": hex::encode(e.to_cbor_data())}));
                        } else { acc.inc("panics_no_result_counted_under_C16"); }
                    }
                }
            }
        }
    }
}
fn collect_digests(o: &O, out: &mut Vec<D>) { let d = o.digest(); if !out.contains(&d) { out.push(d) } for (_, c) in o.children() { collect_digests(c, out) } }

fn whole_ops(acc: &mut Acc, e: &Envelope, m_digest_wrapped: D, label: &dyn Fn() -> String) {
    let orig = bind::observe(e);
    let key = bind::key0();
    let ops: Vec<(&'static str, Box<dyn Fn() -> Option<Envelope> + '_>)> = vec![
        ("elide", Box::new(|| Some(e.elide()))),
        ("encrypt_subject", Box::new(|| e.encrypt_subject(&key).ok())),
        ("compress", Box::new(|| e.compress().ok())),
        ("compress_subject", Box::new(|| e.compress_subject().ok())),
    ];
    for (n, f) in ops {
        acc.inc("whole_envelope_ops");
        let cid = || format!("{}/{n}", label());
        match catch(|| f()) {
            Ok(Some(r)) => { if let Some((path, what)) = same_digests(&orig, &bind::observe(&r), "") { acc.viol(format!("C02|{n}|{what}"), format!("digest changed at {path}"), cid(), json!({"original": hex::encode(e.to_cbor_data()), "result": hex::encode(r.to_cbor_data())})) } acc.nontrivial(&(hex::encode(orig.digest()), n)); }
            Ok(None) => acc.inc("whole_envelope_ops_refused"),
            Err(p) => if p.msg.contains("assertion") { acc.viol(format!("C02|{n}|digest-assert|{}", p.loc), p.msg.clone(), cid(), json!({"original": hex::encode(e.to_cbor_data())})) } else { acc.inc("panics_no_result_counted_under_C16") },
        }
    }
    // encrypt() is documented as wrap-then-encrypt-subject: the result must have the digest of the wrapped original
    acc.inc("whole_envelope_ops");
    match catch(|| e.encrypt(&key)) {
        Ok(r) => { if bind::dg(&r) != m_digest_wrapped { acc.viol("C02|encrypt|wrapped-digest", "encrypt() result does not have the digest of the wrapped original", format!("{}/encrypt", label()), json!({"original": hex::encode(e.to_cbor_data())})) } }
        Err(_) => acc.inc("panics_no_result_counted_under_C16"),
    }
}

pub fn run(ctx: &Ctx) -> i32 {
    let th = ctx.tier.thorough();
    let (w1, w2) = if th { (8, 6) } else { (7, 5) };
    let mut trees = families::plain(w1);
    let ntrees_plain = trees.len();
    trees.extend(families::decode_only()); trees.extend(families::nsn()); trees.extend(families::valued());
    let acc = trees.par_iter().enumerate().with_max_len(1).map(|(ti, m)| {
        let mut acc = Acc::new();
        acc.inc("trees");
        let e = if ti < ntrees_plain { bind::build(m, 0) } else { bind::build_route(m, bind::Route::Decode) };
        let second = m.weight() <= w2;
        let mut firsts: Vec<Envelope> = vec![];
        menu(&mut acc, &e, &|| format!("p1/tree{ti}"), if second { Some(&mut firsts) } else { None }, "first");
        let wd = crate::refmodel::sha256::sha256(&m.digest());
        whole_ops(&mut acc, &e, wd, &|| format!("p1/tree{ti}"));
        if second {
            // second pass: the same menu on every distinct first-pass result (envelopes that already contain obscured elements)
            let mut seen: HashSet<O> = HashSet::new();
            let mut idx = 0;
            for r in firsts {
                let o = bind::observe(&r);
                if !seen.insert(o) { continue }
                idx += 1; let j = idx;
                acc.inc("second_pass_inputs");
                menu(&mut acc, &r, &|| format!("p2/tree{ti}/res{j}"), None, "second");
                whole_ops(&mut acc, &r, wd, &|| format!("p2/tree{ti}/res{j}"));
            }
        }
        if ti % 131 == (ctx.seed as usize % 131) { acc.sample(json!({"tree": m.show(), "distinct_digests": m.distinct_digests().len(), "menu": "all subsets of digests + one absent x {removing,revealing} x {Elide,Encrypt,Compress}"})) }
        acc
    }).reduce(Acc::new, Acc::merge);
    // wide / deep shapes and count / depth sweeps: single, pair and large target sets from both ends of the digest list
    let wide = families::wide_all(th);
    let accw = wide.par_iter().with_max_len(1).map(|(wn, m)| {
        let mut acc = Acc::new();
        let Ok(e) = catch(|| bind::build(m, 0)) else { return acc };
        acc.inc("wide_shapes");
        let orig = bind::observe(&e);
        let ds = m.distinct_digests();
        let picks: Vec<usize> = (0..ds.len()).filter(|i| *i < 6 || i % 61 == 0 || *i + 2 >= ds.len()).collect();
        let mut sets: Vec<Vec<D>> = vec![vec![], vec![families::absent_digest()]];
        sets.extend(picks.iter().map(|i| vec![ds[*i]]));
        for w in picks.windows(2) { sets.push(vec![ds[w[0]], ds[w[1]]]) }
        for k in [16usize, 17, 33, 65] { if ds.len() > k { sets.push(ds[..k].to_vec()); sets.push(ds[ds.len() - k..].to_vec()) } }
        sets.push(ds.clone());
        for t in sets { let tset = bind::dset(&t);
            for revealing in [false, true] { for (kind, action) in actions() {
                acc.inc("obscurings_first_pass");
                let cid = || format!("wide/{wn}/{}targets:{}/rev{}/{kind:?}", t.len(), t.iter().take(3).map(|d| hex::encode(&d[..3])).collect::<Vec<_>>().join("+"), revealing as u8);
                match catch(|| e.elide_set_with_action(&tset, revealing, &action)) {
                    Ok(r) => { let ro = bind::observe(&r);
                        if let Some((path, what)) = same_digests(&orig, &ro, "") { acc.viol(format!("C02|wide|{kind:?}|{}|{}", if revealing { "revealing" } else { "removing" }, what), format!("digest changed at {path}"), cid(), json!({"shape": wn, "targets": t.len()})) }
                        if ro != orig { acc.nontrivial(&(wn.clone(), t.len(), t.first().cloned(), revealing, kind)); acc.inc("results_changed_something"); } }
                    Err(p) => { if p.msg.contains("assertion failed") || p.msg.contains("assertion `left") { acc.viol(format!("C02|wide|{kind:?}|digest-assert|{}", p.loc), format!("digest-preservation assert fired: {}", p.msg), cid(), json!({"shape": wn})) } else { acc.inc("panics_no_result_counted_under_C16") } }
                }
            } }
        }
        whole_ops(&mut acc, &e, crate::refmodel::sha256::sha256(&m.digest()), &|| format!("wide/{wn}"));
        acc
    }).reduce(Acc::new, Acc::merge);
    let acc = acc.merge(accw);
    let evals = acc.get("obscurings_first_pass") + acc.get("obscurings_second_pass") + acc.get("whole_envelope_ops");
    let cov = json!({"evaluations": evals,
        "rule": "(wide / deep shapes and every assertion count 1..72 and depth 1..40: single / pair / 16..65-element / full target sets) (all subsets for envelopes with at most 10 distinct digests - every tree of the weight-bounded families; for the hand-built decode-only shapes with more, the empty / singleton / pair / full target sets) case = (envelope, target subset incl. one absent digest, mode, action); non-trivial = the result differs from the input (something was obscured); distinct by (root digest, subset, mode, action)",
        "exhaustive": true,
        "bounds": {"first_pass_tree_weight": w1, "second_pass_tree_weight": w2, "decode_only_shapes": families::decode_only().len()}});
    finish(ctx, acc, "exploration", cov, vec!["trees heavier than the bound and atoms outside the alphabet are not covered".into(),
        "a panic from unwrap() on an already-obscured target is 'no result' here and reported under C16".into()])
}
