use crate::report::Ctx;
pub mod c01; pub mod c02; pub mod c03; pub mod c04; pub mod c05; pub mod c06; pub mod c07; pub mod c08; pub mod c09; pub mod c10; pub mod c11; pub mod c12; pub mod c13; pub mod c14; pub mod c15; pub mod c16; pub mod c17; pub mod c18; pub mod c19;
pub fn run(ctx: &Ctx) -> i32 {
    match ctx.id.as_str() {
        "C01" => c01::run(ctx),
        "C02" => c02::run(ctx),
        "C03" => c03::run(ctx),
        "C04" => c04::run(ctx),
        "C05" => c05::run(ctx),
        "C06" => c06::run(ctx),
        "C07" => c07::run(ctx),
        "C08" => c08::run(ctx),
        "C09" => c09::run(ctx),
        "C10" => c10::run(ctx),
        "C11" => c11::run(ctx),
        "C12" => c12::run(ctx),
        "C13" => c13::run(ctx),
        "C14" => c14::run(ctx),
        "C15" => c15::run(ctx),
        "C16" => c16::run(ctx),
        "C17" => c17::run(ctx),
        "C18" => c18::run(ctx),
        "C19" => c19::run(ctx),
        _ => { eprintln!("MACHINERY: unknown property {}", ctx.id); 2 }
    }
}
