use crate::report::Ctx;
pub mod c01;
pub fn run(ctx: &Ctx) -> i32 {
    match ctx.id.as_str() {
        "C01" => c01::run(ctx),
        _ => { eprintln!("MACHINERY: unknown property {}", ctx.id); 2 }
    }
}
