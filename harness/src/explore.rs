//! Explicit-state explorer over (real Envelope) states; transitions are public API calls with arguments from a finite menu.
use crate::bind::{self, O};
use crate::report::{Acc, catch, Panic};
use bc_envelope::prelude::*;
use bc_components::{Digest, DigestProvider, Salt, SigningPrivateKey, Ed25519PrivateKey, X25519PrivateKey, EncapsulationPrivateKey, EncapsulationPublicKey};
use rayon::prelude::*;
use std::collections::HashSet;

pub struct Op { pub name: String, pub f: Box<dyn Fn(&Envelope) -> Option<Envelope> + Send + Sync> }
fn op(name: impl Into<String>, f: impl Fn(&Envelope) -> Option<Envelope> + Send + Sync + 'static) -> Op { Op { name: name.into(), f: Box::new(f) } }

pub struct Pool { pub items: Vec<(&'static str, Envelope)> }
pub fn fixed_salt() -> Salt { Salt::from_data(vec![5u8; 16]) }
pub fn pool() -> Pool {
    let a1 = Envelope::new_assertion("p1", "o1");
    let a2 = Envelope::new_assertion(known_values::IS_A, "o2");
    let a3 = Envelope::new_assertion("p1", "o3");
    let a1e = a1.elide();
    let a1d = a1.add_salt_instance(fixed_salt());
    let a4 = Envelope::new_assertion("p4", Envelope::new("n").add_assertion("x", "y"));
    let a1enc = bind::obscure_whole(&a1, crate::refmodel::tree::Kind::Encrypted);
    let a3cmp = bind::obscure_whole(&a3, crate::refmodel::tree::Kind::Compressed);
    Pool { items: vec![("a1", a1), ("a2", a2), ("a3", a3), ("a1e", a1e), ("a1d", a1d), ("a4", a4), ("a1enc", a1enc), ("a3cmp", a3cmp)] }
}
pub fn ed_key() -> SigningPrivateKey { SigningPrivateKey::new_ed25519(Ed25519PrivateKey::from_data([9u8; 32])) }
pub fn x_keys() -> (EncapsulationPrivateKey, EncapsulationPublicKey) {
    let sk = X25519PrivateKey::from_data([11u8; 32]); let pk = sk.public_key();
    (EncapsulationPrivateKey::X25519(sk), EncapsulationPublicKey::X25519(pk))
}
/// structural sub-alphabet {add, remove, replace, replace_subject, wrap, unwrap, encode->decode}
pub fn ops_structural() -> Vec<Op> {
    let p = pool(); let mut v = vec![];
    for (n, a) in &p.items { let a = a.clone(); v.push(op(format!("add({n})"), move |e| e.add_assertion_envelope(a.clone()).ok())); }
    // non-assertions must be refused
    for (n, x) in [("leaf", Envelope::new("x")), ("known", Envelope::new(known_values::NOTE)), ("wrapped", Envelope::new_assertion("p", "o").wrap_envelope())] {
        v.push(op(format!("add-nonassertion({n})"), move |e| e.add_assertion_envelope(x.clone()).ok()));
    }
    v.push(op("add-nonassertion-salted(leaf,unsalted)", |e| e.add_assertion_envelope_salted(Envelope::new("x"), false).ok()));
    v.push(op("add-salted(a2,unsalted)", |e| e.add_assertion_envelope_salted(Envelope::new_assertion(known_values::IS_A, "o2"), false).ok()));
    for (n, a) in &p.items[..5] { let a = a.clone(); v.push(op(format!("remove({n})"), move |e| Some(e.remove_assertion(a.clone())))); }
    let g = |i: usize| p.items[i].1.clone();
    for (x, y, nm) in [(g(0), g(2), "replace(a1,a3)"), (g(2), g(1), "replace(a3,a2)"), (g(0), g(0), "replace(a1,a1)"), (g(1), g(3), "replace(a2,a1e)")] {
        v.push(op(nm, move |e| e.replace_assertion(x.clone(), y.clone()).ok()));
    }
    // the plural adders with a repetition inside the batch, with both forms (plain, elided) of one assertion, and with the receiver's own assertions
    { let (a1, a3, a1e) = (g(0), g(2), g(3));
      { let b = vec![a1.clone(), a3.clone(), a1.clone()]; v.push(op("add_assertion_envelopes([a1,a3,a1])", move |e| e.add_assertion_envelopes(&b).ok())); }
      { let b = vec![a3.clone(), a1e.clone(), a1.clone()]; v.push(op("add_assertion_envelopes([a3,a1e,a1])", move |e| e.add_assertion_envelopes(&b).ok())); }
      { let b = vec![a3.clone(), a3.clone()]; v.push(op("add_assertions([a3,a3])", move |e| Some(e.add_assertions(&b)))); }
      v.push(op("add_assertion_envelopes(own assertions)", |e| e.add_assertion_envelopes(&e.assertions()).ok())); }
    v.push(op("replace_subject(leaf)", |e| Some(e.replace_subject(Envelope::new("s2")))));
    v.push(op("replace_subject(node)", |e| Some(e.replace_subject(Envelope::new("s3").add_assertion("q", "r")))));
    v.push(op("replace_subject(wrapped)", |e| Some(e.replace_subject(Envelope::new("s4").wrap_envelope()))));
    v.push(op("replace_subject(assertion)", |e| Some(e.replace_subject(Envelope::new_assertion("sp", "so")))));
    v.push(op("wrap", |e| Some(e.wrap_envelope())));
    v.push(op("unwrap", |e| e.unwrap_envelope().ok()));
    v.push(op("subject", |e| Some(e.subject())));
    v.push(op("encode-decode", |e| Envelope::try_from_cbor_data(e.to_cbor_data()).ok()));
    v
}
pub fn ops_full() -> Vec<Op> {
    let mut v = ops_structural();
    let key = bind::key0(); let nonce = bind::nonce0();
    let a1d = pool().items[0].1.digest().into_owned();
    v.push(op("elide", |e| Some(e.elide())));
    for (nm, mk) in [("Elide", 0), ("Encrypt", 1), ("Compress", 2)] {
        let k = key.clone();
        let mkact = move || match mk { 0 => ObscureAction::Elide, 1 => ObscureAction::Encrypt(k.clone()), _ => ObscureAction::Compress };
        let m1 = mkact.clone(); v.push(op(format!("{nm}.removing(subject)"), move |e| { let t: HashSet<Digest> = [e.subject().digest().into_owned()].into_iter().collect(); Some(e.elide_removing_set_with_action(&t, &m1())) }));
        let m2 = mkact.clone(); v.push(op(format!("{nm}.removing(first-assertion)"), move |e| { let a = e.assertions(); let t: HashSet<Digest> = a.first().map(|x| x.digest().into_owned()).into_iter().collect(); Some(e.elide_removing_set_with_action(&t, &m2())) }));
        let m3 = mkact.clone(); let d = a1d.clone(); v.push(op(format!("{nm}.removing(a1)"), move |e| { let t: HashSet<Digest> = [d.clone()].into_iter().collect(); Some(e.elide_removing_set_with_action(&t, &m3())) }));
        let m4 = mkact.clone(); v.push(op(format!("{nm}.revealing(root,subject)"), move |e| { let t: HashSet<Digest> = [e.digest().into_owned(), e.subject().digest().into_owned()].into_iter().collect(); Some(e.elide_revealing_set_with_action(&t, &m4())) }));
    }
    v.push(op("compress", |e| e.compress().ok()));
    v.push(op("uncompress", |e| e.uncompress().ok()));
    v.push(op("compress_subject", |e| e.compress_subject().ok()));
    v.push(op("uncompress_subject", |e| e.uncompress_subject().ok()));
    { let (k, n) = (key.clone(), nonce.clone()); v.push(op("encrypt_subject", move |e| e.encrypt_subject_opt(&k, Some(n.clone())).ok())); }
    { let k = key.clone(); v.push(op("decrypt_subject", move |e| e.decrypt_subject(&k).ok())); }
    { let (k, n) = (key.clone(), nonce.clone()); v.push(op("encrypt(wrap+encrypt_subject)", move |e| e.wrap_envelope().encrypt_subject_opt(&k, Some(n.clone())).ok())); }
    { let k = key.clone(); v.push(op("decrypt", move |e| e.decrypt(&k).ok())); }
    v.push(op("add_salt_instance", |e| Some(e.add_salt_instance(fixed_salt()))));
    v.push(op("add_assertion_salted(fake-rng)", |e| {
        // add_assertion_salted draws from the OS generator; the deterministic equivalent: decorate with a fixed salt, then add
        let a = Envelope::new_assertion("ps", "os").add_salt_instance(fixed_salt()); e.add_assertion_envelope(a).ok() }));
    v.push(op("add_signature(ed25519)", |e| Some(e.add_signature(&ed_key()))));
    // a recipient assertion with a FIXED sealed message (the ephemeral key of add_recipient cannot be seeded; the real call is exercised in C10)
    v.push(op("add_recipient(fixed sealed message)", |e| { let sm = bc_components::SealedMessage::try_from(CBOR::try_from_hex(SEALED_HEX).ok()?).ok()?; e.add_assertion_envelope(Envelope::new_assertion(known_values::HAS_RECIPIENT, sm)).ok() }));
    v.push(op("add_type", |e| Some(e.add_type("T"))));
    v.push(op("add_assertions_salted(fixed)", |e| { let a = Envelope::new_assertion("pm", "om").add_salt_instance(fixed_salt()); Some(e.add_assertions(&[a, Envelope::new_assertion("p1", "o1")])) }));
    v.push(op("add_optional_assertion(None)", |e| Some(e.add_optional_assertion("po", None::<&str>))));
    v.push(op("proof(subject)", |e| e.proof_contains_target(&e.subject())));
    v.push(op("proof(first-assertion)", |e| { let a = e.assertions(); a.first().and_then(|x| e.proof_contains_target(x)) }));
    v.push(op("sign(ed25519)=wrap+add_signature", |e| Some(e.sign(&ed_key()))));
    // signature metadata given the same assertion twice: the metadata node inside the 'signed' object must still be canonical
    v.push(op("add_signature_opt(ed25519, metadata with a repeated assertion)", |e| Some(e.add_signature_opt(&ed_key(), None, Some(SignatureMetadata::new().with_assertion(known_values::NOTE, "m").with_assertion("purpose", "p").with_assertion(known_values::NOTE, "m"))))));
    v.push(op("sskr_split(1-of-1)[0]", |e| { let spec = bc_components::SSKRSpec::new(1, vec![bc_components::SSKRGroupSpec::new(1, 1).ok()?]).ok()?; let mut rng = bc_rand::SeededRandomNumberGenerator::new([1, 2, 3, 4]); e.sskr_split_using(&spec, &bind::key0(), &mut rng).ok()?.into_iter().flatten().next() }));
    v.push(op("add_attachment", |e| Some(e.add_attachment("pl", "v", Some("c")))));
    v
}
pub const SEALED_HEX: &str = "d99c5382d99c42835825d1151536f1f3480c7b88e78b32560f6497ef49d5ef350f3809a5e4a0a5bfd7fa4249fa666b4c01010101010101010101010150df94e0bfb1438176c5bde65c16a4fbfbd99c4b582052e77fa1053ac4d2ed563e4b61e5e7022e5f5fe6b5d8e6abe121cfc1d00cd273";
/// state key: the observation (cases, digests, leaf bytes); ciphertext / compressed payloads are not part of an observation,
/// and every operation in the alphabets is deterministic, so equal keys have equal futures.
pub fn state_key(e: &Envelope) -> O { bind::observe(e) }
pub struct Stats { pub states: u64, pub transitions: u64, pub merged: u64, pub refused: u64, pub panics: u64, pub max_depth: usize, pub sequences: u64, pub per_depth: Vec<u64> }
pub type StateFn<'a> = &'a (dyn Fn(&Envelope, &dyn Fn() -> String, &mut Acc) + Sync);
pub type TransFn<'a> = &'a (dyn Fn(&Envelope, &str, &Result<Option<Envelope>, Panic>, &dyn Fn() -> String, &mut Acc) + Sync);

/// Breadth-first from every root (roots in parallel). `on_state` is called once per distinct state (including roots),
/// `on_trans` once per (state, op) pair. Path descriptions are built lazily.
pub fn explore(roots: &[(String, Envelope)], ops: &[Op], depth: usize, on_state: StateFn, on_trans: TransFn, imm_sig: Option<&str>) -> (Stats, Acc) {
    let results: Vec<(Stats, Acc)> = roots.par_iter().with_max_len(1).map(|(rname, root)| {
        let mut acc = Acc::new();
        let mut st = Stats { states: 0, transitions: 0, merged: 0, refused: 0, panics: 0, max_depth: 0, sequences: 0, per_depth: vec![0; depth + 1] };
        let mut seen: HashSet<O> = HashSet::new();
        let mut frontier: Vec<(Envelope, Vec<u16>)> = vec![(root.clone(), vec![])];
        seen.insert(state_key(root)); st.states += 1; st.per_depth[0] += 1;
        let describe = |path: &[u16]| -> String { format!("root={} ops=[{}]", rname, path.iter().map(|i| ops[*i as usize].name.as_str()).collect::<Vec<_>>().join(" ; ")) };
        on_state(root, &|| describe(&[]), &mut acc);
        // the 24-assertion root is explored one level less deep (each of its states costs about ten times a small one)
        let depth_r = if rname.starts_with("wide-") { depth.saturating_sub(1).max(1) } else { depth };
        for d in 0..depth_r {
            let mut next = vec![];
            for (e, path) in &frontier {
                let before = if imm_sig.is_some() { Some(e.to_cbor_data()) } else { None };
                for (i, o) in ops.iter().enumerate() {
                    st.transitions += 1;
                    let r = catch(|| (o.f)(e));
                    let desc = || { let mut p = path.clone(); p.push(i as u16); describe(&p) };
                    on_trans(e, &o.name, &r, &desc, &mut acc);
                    match r {
                        Err(_) => { st.panics += 1; acc.outcome(format!("{}:panic", o.name)); }
                        Ok(None) => { st.refused += 1; acc.outcome(format!("{}:refused", o.name)); }
                        Ok(Some(r)) => {
                            let k = state_key(&r);
                            if d + 1 == depth_r { st.sequences += 1 }
                            if seen.insert(k) {
                                st.states += 1; st.per_depth[d + 1] += 1; st.max_depth = d + 1;
                                acc.outcome(format!("{}:new-state", o.name));
                                on_state(&r, &desc, &mut acc);
                                let mut p = path.clone(); p.push(i as u16); next.push((r, p));
                            } else { st.merged += 1; acc.outcome(format!("{}:merged", o.name)); }
                        }
                    }
                }
                // receiver immutability: after all operations were applied to this state it still serialises to the same bytes
                if let (Some(sig), Some(b)) = (imm_sig, before) {
                    acc.inc("receiver_immutability_checks");
                    if e.to_cbor_data() != b || state_key(e) != state_key(&Envelope::try_from_cbor_data(b.clone()).unwrap_or_else(|_| e.clone())) {
                        acc.viol(sig.to_string(), "an operation altered the envelope it was applied to", describe(path), serde_json::json!({"before": hex::encode(&b), "after": hex::encode(e.to_cbor_data())}));
                    }
                }
            }
            frontier = next;
        }
        (st, acc)
    }).collect();
    let mut total = Stats { states: 0, transitions: 0, merged: 0, refused: 0, panics: 0, max_depth: 0, sequences: 0, per_depth: vec![0; depth + 1] };
    let mut acc = Acc::new();
    for (s, a) in results {
        total.states += s.states; total.transitions += s.transitions; total.merged += s.merged; total.refused += s.refused; total.panics += s.panics;
        total.max_depth = total.max_depth.max(s.max_depth); total.sequences += s.sequences;
        for (i, x) in s.per_depth.iter().enumerate() { total.per_depth[i] += x }
        acc = acc.merge(a);
    }
    (total, acc)
}
/// roots that already carry many assertions (so that remove / replace at depth 1 act on long sorted lists)
pub fn rich_roots() -> Vec<(String, Envelope)> {
    let p = pool();
    let mut a = Envelope::new("rich");
    for (_, x) in p.items.iter().take(6) { a = a.add_assertion_envelope(x.clone()).unwrap() }
    let a = a.add_assertion("k1", "v1").add_assertion("k2", 2).add_assertion(known_values::NOTE, "n");
    let mut b = Envelope::new("inner").add_assertion("q", "r").wrap_envelope();
    for (_, x) in p.items.iter().skip(1).take(5) { b = b.add_assertion_envelope(x.clone()).unwrap() }
    // 24 plain assertions + the pool's first two: the array head of the serialisation changes width when the search adds or removes one
    let mut c = Envelope::new("wide24");
    for i in 0..22 { c = c.add_assertion(format!("p{i:03}"), i) }
    for (_, x) in p.items.iter().take(2) { c = c.add_assertion_envelope(x.clone()).unwrap() }
    // value-dependent corners as a root: known values of 2^28 / 2^32 / 2^64-1, NaN, null, a negative integer below i64::MIN, an empty string, a leaf
    // that embeds an envelope, a leaf that holds a tagged known value
    let d = Envelope::new(KnownValue::new(1 << 32))
        .add_assertion(KnownValue::new(1 << 28), f64::NAN)
        .add_assertion(Envelope::null(), KnownValue::new(u64::MAX))
        .add_assertion("", CBOR::from(dcbor::CBORCase::Negative(u64::MAX)))
        .add_assertion(CBOR::from(Envelope::new("emb").add_assertion("ep", "eo")), KnownValue::new(4).to_cbor());
    vec![("rich-9-assertions".into(), a), ("wrapped-with-5-assertions".into(), b), ("wide-24-assertions".into(), c), ("value-corners".into(), d)]
}
pub fn roots_from(models: &[crate::refmodel::tree::M]) -> Vec<(String, Envelope)> { let mut v: Vec<(String, Envelope)> = models.iter().map(|m| (m.show(), bind::build_route(m, if m.encode().is_some() && contains_elided(m) { bind::Route::Decode } else { bind::Route::Envelopes(0) }))).collect(); v.extend(rich_roots()); v }
fn contains_elided(m: &crate::refmodel::tree::M) -> bool { use crate::refmodel::tree::M; match m { M::Obscured(..) => true, M::Wrapped(e) => contains_elided(e), M::Assertion(p, o) => contains_elided(p) || contains_elided(o), M::Node(s, a) => contains_elided(s) || a.iter().any(contains_elided), _ => false } }
