//! Evidence, violation records with signatures, known-findings matching, replay files, panic capture.
use serde_json::{json, Value};
/// println! that does not panic when stdout has been closed (e.g. piped into `head`)
#[macro_export]
macro_rules! outln { ($($a:tt)*) => { { use std::io::Write; let _ = writeln!(std::io::stdout(), $($a)*); } } }
use std::collections::{BTreeMap, HashSet};
use std::time::Instant;

#[derive(Clone, Copy, PartialEq, Debug)]
pub enum Tier { Quick, Thorough }
impl Tier { pub fn name(&self) -> &'static str { match self { Tier::Quick => "quick", Tier::Thorough => "thorough" } } pub fn thorough(&self) -> bool { *self == Tier::Thorough } }
pub struct Ctx { pub id: String, pub tier: Tier, pub seed: u64, pub replay: Option<String>, pub t0: Instant, pub root: String }

#[derive(Clone, Debug)]
pub struct Viol { pub sig: String, pub what: String, pub case_id: String, pub detail: Value, pub count: u64 }
#[derive(Default)]
pub struct Acc {
    pub n: BTreeMap<&'static str, u64>,
    pub viols: BTreeMap<String, Viol>,
    pub samples: Vec<Value>,
    pub distinct: HashSet<u64>,
    pub outcomes: BTreeMap<String, u64>,
}
impl Acc {
    pub fn new() -> Self { Self::default() }
    #[inline] pub fn inc(&mut self, k: &'static str) { *self.n.entry(k).or_insert(0) += 1 }
    #[inline] pub fn add(&mut self, k: &'static str, v: u64) { *self.n.entry(k).or_insert(0) += v }
    pub fn get(&self, k: &str) -> u64 { self.n.get(k).copied().unwrap_or(0) }
    pub fn outcome(&mut self, k: impl Into<String>) { *self.outcomes.entry(k.into()).or_insert(0) += 1 }
    pub fn nontrivial<H: std::hash::Hash>(&mut self, h: &H) {
        use std::hash::Hasher;
        let mut s = std::collections::hash_map::DefaultHasher::new(); h.hash(&mut s); self.distinct.insert(s.finish());
    }
    pub fn sample(&mut self, v: Value) { if self.samples.len() < 4 { self.samples.push(v) } }
    pub fn viol(&mut self, sig: impl Into<String>, what: impl Into<String>, case_id: impl Into<String>, detail: Value) {
        let sig = sig.into(); let case_id = case_id.into();
        match self.viols.get_mut(&sig) {
            Some(v) => { v.count += 1; if case_id < v.case_id { v.case_id = case_id; v.what = what.into(); v.detail = detail } }
            None => { self.viols.insert(sig.clone(), Viol { sig, what: what.into(), case_id, detail, count: 1 }); }
        }
    }
    pub fn merge(mut self, o: Acc) -> Acc {
        for (k, v) in o.n { *self.n.entry(k).or_insert(0) += v }
        for (k, v) in o.outcomes { *self.outcomes.entry(k).or_insert(0) += v }
        for (k, v) in o.viols {
            match self.viols.get_mut(&k) {
                Some(x) => { x.count += v.count; if v.case_id < x.case_id { x.case_id = v.case_id; x.what = v.what; x.detail = v.detail } }
                None => { self.viols.insert(k, v); }
            }
        }
        for s in o.samples { if self.samples.len() < 8 { self.samples.push(s) } }
        self.distinct.extend(o.distinct);
        self
    }
}

pub struct Known { pub property: String, pub key: String, pub status: String, pub what: String }
pub fn load_known(root: &str) -> Vec<Known> {
    let p = format!("{root}/known_findings.json");
    let Ok(s) = std::fs::read_to_string(&p) else { return vec![] };
    let v: Value = serde_json::from_str(&s).unwrap_or_else(|e| { eprintln!("MACHINERY: {p} does not parse: {e}"); std::process::exit(2) });
    v["findings"].as_array().map(|a| a.iter().map(|f| Known {
        property: f["property"].as_str().unwrap_or("").into(), key: f["key"].as_str().unwrap_or("").into(),
        status: f["status"].as_str().unwrap_or("").into(), what: f["what"].as_str().unwrap_or("").into() }).collect()).unwrap_or_default()
}
fn sanitize(s: &str) -> String { s.chars().map(|c| if c.is_ascii_alphanumeric() || c == '-' || c == '.' { c } else { '_' }).collect::<String>().chars().take(120).collect() }

/// Writes evidence + replay files, prints KNOWN-FINDING / VIOLATION lines, returns the exit code.
pub fn finish(ctx: &Ctx, acc: Acc, level: &str, mut coverage: Value, assumptions: Vec<String>) -> i32 {
    let known = load_known(&ctx.root);
    let mut unlisted = 0; let mut known_met = vec![];
    let mut viol_list = vec![];
    let mut acc = acc;
    if let Some(f) = &ctx.replay { acc.viols.retain(|_, v| &v.case_id == f); }
    for (sig, v) in &acc.viols {
        let listed = known.iter().find(|k| k.property == ctx.id && k.status == "known" && &k.key == sig);
        let dir = format!("{}/replays/{}", ctx.root, ctx.id);
        let _ = std::fs::create_dir_all(&dir);
        let path = format!("{dir}/{}.json", sanitize(sig));
        let rec = json!({"property": ctx.id, "signature": sig, "what": v.what, "case_id": v.case_id, "tier": ctx.tier.name(), "occurrences": v.count,
            "detail": v.detail, "replay_cmd": format!("./check {} --replay {}", ctx.id, path)});
        if ctx.replay.is_none() { let _ = std::fs::write(&path, serde_json::to_string_pretty(&rec).unwrap()); }
        if let Some(k) = listed {
            outln!("KNOWN-FINDING: property={} key={} occurrences={} {}", ctx.id, sig, v.count, k.what);
            known_met.push(json!({"key": sig, "occurrences": v.count, "example_case": v.case_id}));
        } else {
            outln!("VIOLATION property={} replay={}", ctx.id, path);
            outln!("  signature: {sig}\n  what: {}\n  case: {}\n  occurrences: {}", v.what, v.case_id, v.count);
            unlisted += 1;
            viol_list.push(json!({"signature": sig, "what": v.what, "case": v.case_id, "occurrences": v.count, "replay": path}));
        }
    }
    if ctx.replay.is_some() {
        outln!("REPLAY property={} case={} reproduced={}", ctx.id, ctx.replay.as_ref().unwrap(), !acc.viols.is_empty());
        return if unlisted > 0 { 1 } else { 0 };
    }
    let cov = coverage.as_object_mut().expect("coverage object");
    let counters: serde_json::Map<String, Value> = acc.n.iter().map(|(k, v)| (k.to_string(), json!(v))).collect();
    cov.insert("counters".into(), Value::Object(counters));
    if !acc.outcomes.is_empty() { cov.insert("distinct_outcomes".into(), json!(acc.outcomes)); }
    if !cov.contains_key("distinct_nontrivial") { cov.insert("distinct_nontrivial".into(), json!(acc.distinct.len())); }
    if !cov.contains_key("samples") { cov.insert("samples".into(), json!(acc.samples)); }
    cov.insert("known_findings_met".into(), json!(known_met));
    cov.insert("unlisted_violations".into(), json!(viol_list));
    let ev = json!({"property_id": ctx.id, "tier": ctx.tier.name(), "seed": ctx.seed, "level": level, "coverage": coverage,
        "assumptions": assumptions, "wall_s": ctx.t0.elapsed().as_secs_f64(), "violations": unlisted});
    let dir = format!("{}/evidence", ctx.root); let _ = std::fs::create_dir_all(&dir);
    std::fs::write(format!("{dir}/{}.json", ctx.id), serde_json::to_string_pretty(&ev).unwrap()).expect("write evidence");
    let c = &ev["coverage"];
    outln!("{} {} level={} evaluations={} distinct_nontrivial={} states={} transitions={} exhaustive={} unlisted_violations={} known_findings_met={} wall={:.1}s",
        ctx.id, ctx.tier.name(), level, c["evaluations"], c["distinct_nontrivial"], c["states"], c["transitions"], c["exhaustive"], unlisted, known_met.len(), ctx.t0.elapsed().as_secs_f64());
    if unlisted > 0 { 1 } else { 0 }
}

// ---- panic capture ----
use std::cell::RefCell;
static FIRST_UNGUARDED: std::sync::Mutex<Option<(String, String)>> = std::sync::Mutex::new(None);
thread_local! { static LAST_PANIC: RefCell<Option<(String, String)>> = RefCell::new(None); static IN_CATCH: std::cell::Cell<u32> = std::cell::Cell::new(0); }
pub fn install_panic_hook() {
    std::panic::set_hook(Box::new(|info| {
        let loc = info.location().map(|l| format!("{}:{}", crate_relative(l.file()), l.line())).unwrap_or_else(|| "?".into());
        let site = info.location().map(|l| site_key(l.file(), l.line())).unwrap_or_else(|| "?".into());
        let msg = info.payload().downcast_ref::<String>().cloned().or_else(|| info.payload().downcast_ref::<&str>().map(|s| s.to_string())).unwrap_or_default();
        // keep the first line only (anyhow errors print a backtrace after it when RUST_BACKTRACE is set)
        let msg: String = msg.lines().next().unwrap_or("").chars().take(240).collect();
        let loc = format!("{loc}\u{1}{site}");
        if IN_CATCH.with(|c| c.get()) == 0 {
            eprintln!("NOTE: panic outside a guarded call at {}: {msg}", loc.replace('\u{1}', " "));
            // worker threads: remember the first such panic so that the driver-level guard can name its site
            if let Ok(mut g) = FIRST_UNGUARDED.lock() { if g.is_none() { *g = Some((loc.clone(), msg.clone())) } }
        }
        LAST_PANIC.with(|p| *p.borrow_mut() = Some((loc, msg)));
    }));
}
/// a panic site key that survives unrelated edits, reformatting included: crate-relative file + the name of the enclosing function (found by
/// scanning the source upwards from the panicking line for `fn <name>`); the text of the line itself is only the fallback
fn site_key(file: &str, line: u32) -> String {
    let rel = crate_relative(file);
    let src = std::fs::read_to_string(file).unwrap_or_default();
    let lines: Vec<&str> = src.lines().collect();
    let idx = (line.saturating_sub(1) as usize).min(lines.len().saturating_sub(1));
    for i in (0..=idx).rev() {
        if lines.is_empty() { break }
        let l = lines[i];
        if let Some(p) = l.find("fn ") {
            let before_ok = p == 0 || !l[..p].chars().last().map(|c| c.is_alphanumeric() || c == '_').unwrap_or(false);
            let name: String = l[p + 3..].chars().take_while(|c| c.is_alphanumeric() || *c == '_').collect();
            if before_ok && !name.is_empty() && !l.trim_start().starts_with("//") { return format!("{rel}#fn:{name}") }
        }
    }
    let text: String = lines.get(idx).map(|l| l.chars().filter(|c| !c.is_whitespace()).take(70).collect()).unwrap_or_else(|| format!("line{line}"));
    format!("{rel}#{text}")
}
fn crate_relative(f: &str) -> String {
    // /repo/src/x.rs -> src/x.rs ; ~/.cargo/registry/src/<idx>/<crate>-<ver>/src/x.rs -> <crate>/src/x.rs (version dropped)
    if let Some(r) = f.strip_prefix("/repo/") { return r.to_string() }
    if let Some(i) = f.find("/registry/src/") {
        let rest = &f[i + 14..];
        if let Some(j) = rest.find('/') {
            let rest = &rest[j + 1..];
            if let Some(k) = rest.find('/') {
                let krate = &rest[..k];
                let name = krate.rsplit_once('-').map(|x| x.0).unwrap_or(krate);
                return format!("{}{}", name, &rest[k..]);
            }
        }
    }
    if f.contains("/rustc/") || f.contains("/library/") { if let Some(i) = f.find("library/") { return f[i..].to_string() } }
    f.to_string()
}
#[derive(Debug, Clone)]
pub struct Panic { pub loc: String, pub site: String, pub msg: String }
impl Panic { pub fn detail(&self) -> String { let m = self.msg.split("value: ").nth(1).unwrap_or(""); m.chars().filter(|c| !c.is_ascii_digit()).take(40).collect::<String>().trim().replace(' ', "-") }
    pub fn class(&self) -> &'static str { let m = &self.msg; if m.contains("`Result::unwrap()` on an `Err`") || m.contains("`Result::expect") { "unwrap-on-Err" } else if m.contains("`Option::unwrap()` on a `None`") || m.contains("`Option::expect") { "unwrap-on-None" } else if m.contains("assertion") { "assertion" } else if m.contains("explicit panic") { "explicit-panic" } else if m.contains("overflow") { "arithmetic-overflow" } else if m.contains("index out of bounds") || m.contains("out of range") { "out-of-bounds" } else { "other" } } }
pub fn catch<T>(f: impl FnOnce() -> T) -> Result<T, Panic> {
    IN_CATCH.with(|c| c.set(c.get() + 1));
    let r = std::panic::catch_unwind(std::panic::AssertUnwindSafe(f));
    IN_CATCH.with(|c| c.set(c.get() - 1));
    match r {
        Ok(v) => Ok(v),
        Err(_) => { let (loc, msg) = LAST_PANIC.with(|p| p.borrow_mut().take()).or_else(|| FIRST_UNGUARDED.lock().ok().and_then(|mut g| g.take())).unwrap_or(("?\u{1}?".into(), "?".into())); let (l, s) = loc.split_once('\u{1}').map(|(a, b)| (a.to_string(), b.to_string())).unwrap_or((loc.clone(), loc.clone())); Err(Panic { loc: l, site: s, msg }) }
    }
}

/// flat notation of an envelope for reports; formatting itself may be what is broken, so it is guarded
pub fn ff(e: &bc_envelope::Envelope) -> String { catch(|| e.format_flat()).unwrap_or_else(|p| format!("<format_flat panicked at {}>", p.loc)) }
