//! Binding between model trees and real envelopes. `observe` uses ONLY Envelope::case() and DigestProvider::digest().
use crate::refmodel::dcbor::{self, V};
use crate::refmodel::tree::{Kind, M, D};
use bc_envelope::prelude::*;
use bc_envelope::base::envelope::EnvelopeCase;
use bc_components::{DigestProvider, SymmetricKey, Nonce};

pub fn v_to_cbor(v: &V) -> CBOR {
    match v {
        V::U(n) => CBOR::from(*n),
        V::Neg(n) => CBORCase::Negative(*n).into(),
        V::Text(s) => CBOR::from(s.as_str()),
        V::Bytes(b) => CBOR::to_byte_string(b),
        V::Bool(b) => CBOR::from(*b),
        V::Null => CBOR::null(),
        V::Array(a) => CBOR::from(a.iter().map(v_to_cbor).collect::<Vec<CBOR>>()),
        V::Map(m) => { let mut map = Map::new(); for (k, x) in m { map.insert(v_to_cbor(k), v_to_cbor(x)); } CBOR::from(map) }
        V::Tag(t, x) => CBOR::to_tagged_value(*t, v_to_cbor(x)),
        V::F(f) => CBOR::from(*f),
    }
}
pub fn key0() -> SymmetricKey { SymmetricKey::from_data([7u8; 32]) }
pub fn key1() -> SymmetricKey { SymmetricKey::from_data([9u8; 32]) }
pub fn nonce0() -> Nonce { Nonce::from_data([1u8; 12]) }
pub fn nonce1() -> Nonce { Nonce::from_data([2u8; 12]) }
pub fn elided_from_digest(d: D) -> Envelope {
    // decode a bare 32-byte string under the envelope tag: the only public way to make an arbitrary elided element
    let mut b = vec![0xd8, 0xc8, 0x58, 0x20];
    b.extend_from_slice(&d);
    Envelope::try_from_cbor_data(b).expect("elided placeholder decodes")
}
pub fn dset(ds: &[D]) -> std::collections::HashSet<Digest> { ds.iter().map(|d| Digest::from_data(*d)).collect() }
pub fn obscure_whole(e: &Envelope, k: Kind) -> Envelope {
    let t = dset(&[dg(e)]);
    match k {
        Kind::Elided => e.elide(),
        Kind::Encrypted => e.elide_removing_set_with_action(&t, &ObscureAction::Encrypt(key0())),
        Kind::Compressed => e.elide_removing_set_with_action(&t, &ObscureAction::Compress),
    }
}
#[derive(Clone, Copy, Debug, PartialEq)]
pub enum Route { Envelopes(usize), PredObj(usize), Decode, Batch }
/// Build through public constructors, bottom-up; `rot` is a permutation index applied (mod n!) to the insertion order at every node.
pub fn build(m: &M, rot: usize) -> Envelope { build_route(m, Route::Envelopes(rot)) }
pub fn build_route(m: &M, route: Route) -> Envelope {
    if route == Route::Decode {
        if let Some(b) = m.encode() { return Envelope::try_from_cbor_data(b).expect("model encoding decodes") }
    }
    match m {
        M::Leaf(v) => Envelope::new(v_to_cbor(v)),
        M::Known(n) => Envelope::new(KnownValue::new(*n)),
        M::Wrapped(e) => build_route(e, route).wrap_envelope(),
        M::Assertion(p, o) => Envelope::new_assertion(build_route(p, route), build_route(o, route)),
        // a node whose subject is a node cannot be assembled by adding assertions (that would extend the inner node); the API reaches this
        // shape by obscuring the inner node as a whole, adding to the obscured element and revealing the subject again
        M::Node(s, a) if matches!(**s, M::Node(..)) => {
            let mut e = build_route(s, route).compress().expect("compress inner node");
            let n = a.len();
            let pidx = match route { Route::Envelopes(r) | Route::PredObj(r) => r, _ => 0 };
            let perm = crate::families::nth_perm(n, pidx);
            for i in 0..n { e = e.add_assertion_envelope(build_route(&a[perm[i]], route)).expect("assertion"); }
            e.uncompress_subject().expect("uncompress_subject")
        }
        M::Node(s, a) => {
            let mut e = build_route(s, route);
            let n = a.len();
            match route {
                Route::Batch => {
                    let v: Vec<Envelope> = a.iter().map(|x| build_route(x, route)).collect();
                    e = e.add_assertion_envelopes(&v).expect("assertions");
                }
                _ => {
                    let pidx = match route { Route::Envelopes(r) | Route::PredObj(r) => r, _ => 0 };
                    let perm = crate::families::nth_perm(n, pidx);
                    for i in 0..n {
                        let x = &a[perm[i]];
                        match (route, x) {
                            (Route::PredObj(_), M::Assertion(p, o)) => { e = e.add_assertion(build_route(p, route), build_route(o, route)); }
                            _ => { e = e.add_assertion_envelope(build_route(x, route)).expect("assertion"); }
                        }
                    }
                }
            }
            e
        }
        M::Obscured(Kind::Elided, d, None) => elided_from_digest(*d),
        M::Obscured(k, _, Some(h)) => obscure_whole(&build_route(h, route), *k),
        M::Obscured(..) => panic!("cannot build an encrypted/compressed element without its content"),
    }
}
/// observed tree: case + implementation-reported digest
#[derive(Clone, Debug, PartialEq, Eq, Hash)]
pub enum O {
    Leaf(D, Vec<u8>), Known(D, u64), Wrapped(D, Box<O>), Assertion(D, Box<O>, Box<O>), Node(D, Box<O>, Vec<O>), Obscured(Kind, D),
}
pub fn dg(e: &Envelope) -> D { *e.digest().data() }
pub fn observe(e: &Envelope) -> O {
    match e.case() {
        EnvelopeCase::Leaf { cbor, .. } => O::Leaf(dg(e), cbor.to_cbor_data()),
        EnvelopeCase::KnownValue { value, .. } => O::Known(dg(e), value.value()),
        EnvelopeCase::Wrapped { envelope, .. } => O::Wrapped(dg(e), Box::new(observe(envelope))),
        EnvelopeCase::Assertion(a) => O::Assertion(dg(e), Box::new(observe(&a.predicate())), Box::new(observe(&a.object()))),
        EnvelopeCase::Node { subject, assertions, .. } => O::Node(dg(e), Box::new(observe(subject)), assertions.iter().map(observe).collect()),
        EnvelopeCase::Elided(_) => O::Obscured(Kind::Elided, dg(e)),
        EnvelopeCase::Encrypted(_) => O::Obscured(Kind::Encrypted, dg(e)),
        EnvelopeCase::Compressed(_) => O::Obscured(Kind::Compressed, dg(e)),
    }
}
/// what the model predicts `observe` returns (assertions in ascending model-digest order)
pub fn expected(m: &M) -> O {
    match m {
        M::Leaf(v) => O::Leaf(m.digest(), dcbor::bytes(v)),
        M::Known(n) => O::Known(m.digest(), *n),
        M::Wrapped(e) => O::Wrapped(m.digest(), Box::new(expected(e))),
        M::Assertion(p, o) => O::Assertion(m.digest(), Box::new(expected(p)), Box::new(expected(o))),
        M::Node(s, _) => O::Node(m.digest(), Box::new(expected(s)), m.sorted_assertions().into_iter().map(expected).collect()),
        M::Obscured(k, d, _) => O::Obscured(*k, *d),
    }
}
impl O {
    pub fn digest(&self) -> D { match self { O::Leaf(d, _) | O::Known(d, _) | O::Wrapped(d, _) | O::Assertion(d, ..) | O::Node(d, ..) | O::Obscured(_, d) => *d } }
    pub fn case_name(&self) -> &'static str { match self { O::Leaf(..) => "leaf", O::Known(..) => "known", O::Wrapped(..) => "wrapped", O::Assertion(..) => "assertion", O::Node(..) => "node", O::Obscured(Kind::Elided, _) => "elided", O::Obscured(Kind::Encrypted, _) => "encrypted", O::Obscured(Kind::Compressed, _) => "compressed" } }
    pub fn children(&self) -> Vec<(&'static str, &O)> {
        match self {
            O::Wrapped(_, e) => vec![("wrapped", &**e)],
            O::Assertion(_, p, o) => vec![("pred", &**p), ("obj", &**o)],
            O::Node(_, s, a) => { let mut v = vec![("subj", &**s)]; for x in a { v.push(("assert", x)) } v }
            _ => vec![],
        }
    }
    /// turn an observation back into a model tree, recomputing nothing (obscured elements have unknown content)
    pub fn to_model(&self) -> Option<M> {
        Some(match self {
            O::Leaf(_, b) => M::Leaf(crate::refmodel::grammar::parse_cbor(b).ok()?),
            O::Known(_, n) => M::Known(*n),
            O::Wrapped(_, e) => M::Wrapped(Box::new(e.to_model()?)),
            O::Assertion(_, p, o) => M::Assertion(Box::new(p.to_model()?), Box::new(o.to_model()?)),
            O::Node(_, s, a) => M::Node(Box::new(s.to_model()?), a.iter().map(|x| x.to_model()).collect::<Option<Vec<_>>>()?),
            O::Obscured(k, d) => M::Obscured(*k, *d, None),
        })
    }
    /// first position where two observations differ: (path, what)
    pub fn first_diff(&self, other: &O, path: &str) -> Option<(String, String)> {
        if self.case_name() != other.case_name() { return Some((path.to_string(), format!("case {} vs {}", self.case_name(), other.case_name()))) }
        if self.digest() != other.digest() { 
            // descend first to find the deepest cause
            let (a, b) = (self.children(), other.children());
            if a.len() == b.len() { for (i, ((n, x), (_, y))) in a.iter().zip(b.iter()).enumerate() { if let Some(d) = x.first_diff(y, &format!("{path}/{n}{i}")) { return Some(d) } } }
            return Some((path.to_string(), format!("digest at {}", self.case_name())))
        }
        let (a, b) = (self.children(), other.children());
        if a.len() != b.len() { return Some((path.to_string(), "child count".into())) }
        for (i, ((n, x), (_, y))) in a.iter().zip(b.iter()).enumerate() { if let Some(d) = x.first_diff(y, &format!("{path}/{n}{i}")) { return Some(d) } }
        if self != other { return Some((path.to_string(), format!("payload at {}", self.case_name()))) }
        None
    }
}
