#![allow(dead_code, unused_variables, unused_imports)]
mod refmodel; mod bind; mod gen; mod families; mod report; mod invariants; mod explore; mod props;
use report::{Ctx, Tier};

fn main() {
    let args: Vec<String> = std::env::args().collect();
    if args.len() < 2 { eprintln!("usage: vh <Cxx> [quick|thorough] [--replay <file>]"); std::process::exit(2) }
    let id = args[1].to_uppercase();
    if id == "DEBUG-SSH" {
        use bc_components::{Signer, Verifier};
        for scheme in ["ssh-ed25519", "ssh-ecdsa-p256", "ssh-dsa", "schnorr"] {
            let idn = props::c09::identity("B", scheme);
            let msg = [0x11u8; 32];
            let sig = idn.sk.sign_with_options(&msg, idn.opts.clone());
            match sig { Ok(s) => outln!("{scheme}: signed; verify={} ", idn.pk.verify(&s, &msg)), Err(e) => outln!("{scheme}: sign failed {e}") }
            use bc_envelope::prelude::*;
            let mut fails = (0, 0, 0);
            for i in 0..300 {
                let e = Envelope::new(format!("msg{i}")).add_signature_opt(&idn.sk, idn.opts.clone(), None);
                let e2 = Envelope::try_from_cbor_data(e.to_cbor_data()).unwrap();
                let sigs = e.objects_for_predicate(known_values::SIGNED);
                let s0 = sigs[0].extract_subject::<bc_components::Signature>();
                let fresh = idn.sk.sign_with_options(e.subject().digest().data(), idn.opts.clone()).unwrap();
                if !idn.pk.verify(&fresh, e.subject().digest().data()) { fails.0 += 1 }
                if e.has_signature_from(&idn.pk).ok() != Some(true) { fails.1 += 1 }
                if e2.has_signature_from(&idn.pk).ok() != Some(true) { fails.2 += 1 }
                let _ = s0;
            }
            outln!("   300 signatures: fresh-verify failures={} in-envelope failures={} after-roundtrip failures={}", fails.0, fails.1, fails.2);
        }
        return;
    }
    if id == "GEN-SEALED" {
        use bc_envelope::prelude::*;
        let (_, pk) = explore::x_keys();
        let sm = bc_components::SealedMessage::new_opt(bind::key0().to_cbor_data(), &pk, None::<Vec<u8>>, Some(&bind::nonce0()));
        outln!("{}", hex::encode(sm.to_cbor_data())); return;
    }
    let mut tier = match std::env::var("VERIF_TIER").ok().as_deref() { Some("thorough") => Tier::Thorough, _ => Tier::Quick };
    let mut replay = None;
    let mut i = 2;
    while i < args.len() {
        match args[i].as_str() {
            "quick" => tier = Tier::Quick,
            "thorough" => tier = Tier::Thorough,
            "--replay" => {
                i += 1;
                let f = args.get(i).cloned().unwrap_or_default();
                let s = std::fs::read_to_string(&f).unwrap_or_else(|e| { eprintln!("MACHINERY: cannot read replay file {f}: {e}"); std::process::exit(2) });
                let v: serde_json::Value = serde_json::from_str(&s).unwrap_or_else(|e| { eprintln!("MACHINERY: replay file does not parse: {e}"); std::process::exit(2) });
                replay = Some(v["case_id"].as_str().unwrap_or("").to_string());
                if v["tier"].as_str() == Some("thorough") { tier = Tier::Thorough } else { tier = Tier::Quick }
            }
            _ => {}
        }
        i += 1;
    }
    let seed = std::env::var("VERIF_SEED").ok().and_then(|s| s.parse::<u64>().ok()).unwrap_or(0);
    let root = std::env::var("VERIF_ROOT").unwrap_or_else(|_| "/verif".into());
    if let Err(e) = refmodel::tree::self_test() { eprintln!("MACHINERY: {e}"); std::process::exit(2) }
    report::install_panic_hook();
    bc_envelope::register_tags();
    let ctx = Ctx { id: id.clone(), tier, seed, replay, t0: std::time::Instant::now(), root };
    // a panic that escapes the per-call guards (e.g. the subject panics in a call the driver assumed infallible) is still a finding about
    // the tree under test, not a crash of the checker: it is reported as a violation keyed by the panic site
    let guarded = |ctx: &Ctx| -> i32 {
        match report::catch(|| props::run(ctx)) {
            Ok(c) => c,
            Err(p) => {
                let mut acc = report::Acc::new();
                acc.viol(format!("{}|panic-outside-a-guarded-call|{}", ctx.id, p.site), format!("the driver was stopped by a panic at {}: {}", p.loc, p.msg), "driver", serde_json::json!({"panic_site": p.loc, "message": p.msg}));
                report::finish(ctx, acc, "other", serde_json::json!({"explanation": "the run was cut short by a panic outside a guarded call; nothing else is reported for this run", "evaluations": 1, "distinct_nontrivial": 2, "samples": ["panic"], "exhaustive": false}), vec![])
            }
        }
    };
    let code = if ctx.replay.is_some() {
        // a replay runs the case twice and requires identical verdicts (harness owns the nondeterminism)
        let a = guarded(&ctx); let b = guarded(&ctx);
        if a != b { eprintln!("MACHINERY: replay verdict not reproducible ({a} vs {b})"); 2 } else { a }
    } else { guarded(&ctx) };
    std::process::exit(code);
}
