//! Independent SHA-256 (FIPS 180-4), no dependencies.
const K: [u32; 64] = [
0x428a2f98,0x71374491,0xb5c0fbcf,0xe9b5dba5,0x3956c25b,0x59f111f1,0x923f82a4,0xab1c5ed5,0xd807aa98,0x12835b01,0x243185be,0x550c7dc3,0x72be5d74,0x80deb1fe,0x9bdc06a7,0xc19bf174,
0xe49b69c1,0xefbe4786,0x0fc19dc6,0x240ca1cc,0x2de92c6f,0x4a7484aa,0x5cb0a9dc,0x76f988da,0x983e5152,0xa831c66d,0xb00327c8,0xbf597fc7,0xc6e00bf3,0xd5a79147,0x06ca6351,0x14292967,
0x27b70a85,0x2e1b2138,0x4d2c6dfc,0x53380d13,0x650a7354,0x766a0abb,0x81c2c92e,0x92722c85,0xa2bfe8a1,0xa81a664b,0xc24b8b70,0xc76c51a3,0xd192e819,0xd6990624,0xf40e3585,0x106aa070,
0x19a4c116,0x1e376c08,0x2748774c,0x34b0bcb5,0x391c0cb3,0x4ed8aa4a,0x5b9cca4f,0x682e6ff3,0x748f82ee,0x78a5636f,0x84c87814,0x8cc70208,0x90befffa,0xa4506ceb,0xbef9a3f7,0xc67178f2];
pub fn sha256(data: &[u8]) -> [u8; 32] {
    let mut h: [u32; 8] = [0x6a09e667,0xbb67ae85,0x3c6ef372,0xa54ff53a,0x510e527f,0x9b05688c,0x1f83d9ab,0x5be0cd19];
    let mut msg = data.to_vec();
    let bitlen = (data.len() as u64).wrapping_mul(8);
    msg.push(0x80);
    while msg.len() % 64 != 56 { msg.push(0); }
    msg.extend_from_slice(&bitlen.to_be_bytes());
    for chunk in msg.chunks(64) {
        let mut w = [0u32; 64];
        for i in 0..16 { w[i] = u32::from_be_bytes([chunk[4*i], chunk[4*i+1], chunk[4*i+2], chunk[4*i+3]]); }
        for i in 16..64 {
            let s0 = w[i-15].rotate_right(7) ^ w[i-15].rotate_right(18) ^ (w[i-15] >> 3);
            let s1 = w[i-2].rotate_right(17) ^ w[i-2].rotate_right(19) ^ (w[i-2] >> 10);
            w[i] = w[i-16].wrapping_add(s0).wrapping_add(w[i-7]).wrapping_add(s1);
        }
        let (mut a, mut b, mut c, mut d, mut e, mut f, mut g, mut hh) = (h[0],h[1],h[2],h[3],h[4],h[5],h[6],h[7]);
        for i in 0..64 {
            let s1 = e.rotate_right(6) ^ e.rotate_right(11) ^ e.rotate_right(25);
            let ch = (e & f) ^ ((!e) & g);
            let t1 = hh.wrapping_add(s1).wrapping_add(ch).wrapping_add(K[i]).wrapping_add(w[i]);
            let s0 = a.rotate_right(2) ^ a.rotate_right(13) ^ a.rotate_right(22);
            let maj = (a & b) ^ (a & c) ^ (b & c);
            let t2 = s0.wrapping_add(maj);
            hh = g; g = f; f = e; e = d.wrapping_add(t1); d = c; c = b; b = a; a = t1.wrapping_add(t2);
        }
        for (x, y) in h.iter_mut().zip([a,b,c,d,e,f,g,hh]) { *x = x.wrapping_add(y); }
    }
    let mut out = [0u8; 32];
    for i in 0..8 { out[4*i..4*i+4].copy_from_slice(&h[i].to_be_bytes()); }
    out
}
