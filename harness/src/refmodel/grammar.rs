//! Independent strict dCBOR parser and envelope grammar recogniser.
use super::dcbor::{self as cbor, V};
use super::tree::{Kind, M, D};
#[derive(Debug)]
pub struct Rej(pub String);
type R<T> = Result<T, Rej>;
fn rej<T>(s: &str) -> R<T> { Err(Rej(s.to_string())) }
struct P<'a> { b: &'a [u8], i: usize, depth: usize }
impl<'a> P<'a> {
    fn byte(&mut self) -> R<u8> { if self.i >= self.b.len() { return rej("truncated") } let x = self.b[self.i]; self.i += 1; Ok(x) }
    fn take(&mut self, n: usize) -> R<&'a [u8]> { if self.b.len() - self.i < n { return rej("truncated") } let s = &self.b[self.i..self.i + n]; self.i += n; Ok(s) }
    fn arg(&mut self, ai: u8) -> R<u64> {
        match ai {
            0..=23 => Ok(ai as u64),
            24 => { let v = self.byte()? as u64; if v < 24 { return rej("non-shortest head") } Ok(v) }
            25 => { let s = self.take(2)?; let v = u16::from_be_bytes([s[0], s[1]]) as u64; if v <= 0xff { return rej("non-shortest head") } Ok(v) }
            26 => { let s = self.take(4)?; let v = u32::from_be_bytes([s[0], s[1], s[2], s[3]]) as u64; if v <= 0xffff { return rej("non-shortest head") } Ok(v) }
            27 => { let s = self.take(8)?; let v = u64::from_be_bytes(s.try_into().unwrap()); if v <= 0xffff_ffff { return rej("non-shortest head") } Ok(v) }
            _ => rej("indefinite or reserved additional info"),
        }
    }
    fn item(&mut self) -> R<V> {
        self.depth += 1; if self.depth > 512 { return rej("too deep") }
        let start = self.i;
        let ib = self.byte()?; let (major, ai) = (ib >> 5, ib & 0x1f);
        let v = match major {
            0 => V::U(self.arg(ai)?),
            1 => V::Neg(self.arg(ai)?),
            2 => { let n = self.arg(ai)?; V::Bytes(self.take(n as usize)?.to_vec()) }
            3 => { let n = self.arg(ai)?; let s = std::str::from_utf8(self.take(n as usize)?).map_err(|_| Rej("invalid utf8".into()))?; V::Text(s.to_string()) /* NFC check omitted in prototype */ }
            4 => { let n = self.arg(ai)?; let mut a = vec![]; for _ in 0..n { a.push(self.item()?) } V::Array(a) }
            5 => { let n = self.arg(ai)?; let mut m: Vec<(V, V)> = vec![]; let mut prev: Option<Vec<u8>> = None;
                   for _ in 0..n { let ks = self.i; let k = self.item()?; let kb = self.b[ks..self.i].to_vec(); if let Some(p) = &prev { if !(p < &kb) { return rej("map keys not strictly ascending") } } prev = Some(kb); let v = self.item()?; m.push((k, v)); } V::Map(m) }
            6 => { let t = self.arg(ai)?; V::Tag(t, Box::new(self.item()?)) }
            _ => match ai {
                20 => V::Bool(false), 21 => V::Bool(true), 22 => V::Null,
                25 => { let s = self.take(2)?; let h = u16::from_be_bytes([s[0], s[1]]); V::F(half_to_f64(h)) }
                26 => { let s = self.take(4)?; V::F(f32::from_bits(u32::from_be_bytes(s.try_into().unwrap())) as f64) }
                27 => { let s = self.take(8)?; V::F(f64::from_bits(u64::from_be_bytes(s.try_into().unwrap()))) }
                _ => return rej("unsupported simple value"),
            },
        };
        // canonical check: re-encoding must reproduce the consumed bytes (covers float width, numeric reduction, NaN)
        if cbor::bytes(&v) != self.b[start..self.i] {
            // finer classes for floats that dCBOR's numeric reduction requires to be integers
            if let V::F(f) = &v {
                if f.is_finite() && f.fract() == 0.0 && *f >= -18446744073709551616.0 && *f < 18446744073709551616.0 {
                    let width = self.b[start] & 0x1f; // 25 = f16, 26 = f32, 27 = f64
                    let in_i32 = *f >= -2147483648.0 && *f <= 2147483647.0;
                    let in_i64 = *f >= -9223372036854775808.0 && *f < 9223372036854775808.0;
                    return rej(match (width, in_i32, in_i64) { (26, false, _) => "integral float not reduced: f32 outside i32 range", (27, _, false) => "integral float not reduced: f64 outside i64 range", _ => "integral float not reduced" });
                }
            }
            return rej("non-canonical encoding")
        }
        self.depth -= 1;
        Ok(v)
    }
}
fn half_to_f64(h: u16) -> f64 { let s = if h & 0x8000 != 0 { -1.0 } else { 1.0 }; let e = ((h >> 10) & 0x1f) as i32; let m = (h & 0x3ff) as f64; if e == 0 { s * m * 2f64.powi(-24) } else if e == 31 { if m == 0.0 { s * f64::INFINITY } else { f64::NAN } } else { s * (1.0 + m / 1024.0) * 2f64.powi(e - 15) } }
pub fn parse_cbor(b: &[u8]) -> R<V> { let mut p = P { b, i: 0, depth: 0 }; let v = p.item()?; if p.i != b.len() { return rej("trailing bytes") } Ok(v) }

/// envelope-content -> model tree, with all grammar checks; `legacy` records whether tag 24 was seen
pub fn content(v: &V, legacy: &mut bool) -> R<M> {
    match v {
        V::Tag(201, x) => Ok(M::Leaf((**x).clone())),
        V::Tag(24, x) => { *legacy = true; Ok(M::Leaf((**x).clone())) }
        V::Tag(200, x) => Ok(M::Wrapped(Box::new(content(x, legacy)?))),
        V::Tag(40002, x) => { // [ciphertext, nonce(12), auth(16), aad = dCBOR of #6.40001(digest bytes32)]
            let a = match &**x { V::Array(a) => a, _ => return rej("encrypted not array") };
            if a.len() != 4 { return rej("encrypted arity (digest required)") }
            match (&a[0], &a[1], &a[2], &a[3]) { (V::Bytes(_), V::Bytes(n), V::Bytes(t), V::Bytes(aad)) if n.len() == 12 && t.len() == 16 => {
                let d = parse_cbor(aad).map_err(|_| Rej("aad not cbor".into()))?;
                match d { V::Tag(40001, inner) => match *inner { V::Bytes(db) if db.len() == 32 => Ok(M::Obscured(Kind::Encrypted, db.try_into().unwrap(), None)), _ => rej("aad digest") }, _ => rej("aad not digest") } }
                _ => rej("encrypted field types") }
        }
        V::Tag(40003, x) => { let a = match &**x { V::Array(a) => a, _ => return rej("compressed not array") };
            if a.len() != 4 { return rej("compressed arity (digest required)") }
            match (&a[0], &a[1], &a[2], &a[3]) { (V::U(c), V::U(sz), V::Bytes(data), V::Tag(40001, d)) if *c <= u32::MAX as u64 && data.len() as u64 <= *sz => match &**d { V::Bytes(db) if db.len() == 32 => Ok(M::Obscured(Kind::Compressed, db.clone().try_into().unwrap(), None)), _ => rej("compressed digest") }, _ => rej("compressed field types") } }
        V::Tag(_, _) => rej("unknown tag"),
        V::Bytes(b) => if b.len() == 32 { Ok(M::Obscured(Kind::Elided, b.clone().try_into().unwrap(), None)) } else { rej("digest length") },
        V::U(n) => Ok(M::Known(*n)),
        V::Map(m) => { if m.len() != 1 { return rej("assertion map arity") } Ok(M::Assertion(Box::new(content(&m[0].0, legacy)?), Box::new(content(&m[0].1, legacy)?))) }
        V::Array(a) => {
            if a.len() < 2 { return rej("node without assertion") }
            let s = content(&a[0], legacy)?;
            let mut els = vec![]; let mut prev: Option<D> = None;
            for x in &a[1..] { let e = content(x, legacy)?;
                let ok = e.is_assertion_like() || matches!(e, M::Obscured(..)) || subject_obscured(&e); if !ok { return rej("non-assertion in assertion slot") }
                let d = e.digest(); if let Some(p) = prev { if p == d { return rej("repeated digest") } if !(p < d) { return rej("assertions out of order") } } prev = Some(d); els.push(e); }
            Ok(M::Node(Box::new(s), els))
        }
        _ => rej("invalid envelope content"),
    }
}
fn subject_obscured(m: &M) -> bool { match m { M::Obscured(..) => true, M::Node(s, _) => subject_obscured(s), _ => false } }
pub fn recognise(bytes: &[u8]) -> R<(M, bool)> {
    let v = parse_cbor(bytes)?;
    match v { V::Tag(200, x) => { let mut legacy = false; let m = content(&x, &mut legacy)?; Ok((m, legacy)) }, _ => rej("not tagged envelope") }
}
