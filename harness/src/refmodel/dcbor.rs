//! Independent minimal dCBOR encoder for the model's value alphabet.
#[derive(Clone, Debug, PartialEq)]
pub enum V { U(u64), Neg(u64) /* -1 - n */, Text(String), Bytes(Vec<u8>), Bool(bool), Null, Array(Vec<V>), Map(Vec<(V, V)>), Tag(u64, Box<V>), F(f64) }
pub fn head(major: u8, n: u64, out: &mut Vec<u8>) {
    let m = major << 5;
    if n < 24 { out.push(m | n as u8) }
    else if n <= 0xff { out.push(m | 24); out.push(n as u8) }
    else if n <= 0xffff { out.push(m | 25); out.extend_from_slice(&(n as u16).to_be_bytes()) }
    else if n <= 0xffff_ffff { out.push(m | 26); out.extend_from_slice(&(n as u32).to_be_bytes()) }
    else { out.push(m | 27); out.extend_from_slice(&n.to_be_bytes()) }
}
fn f16_bits(f: f64) -> Option<u16> {
    // exact conversion f64 -> f16 if representable
    if f.is_nan() { return Some(0x7e00) }
    let f32v = f as f32; if (f32v as f64) != f { return None }
    let bits = f32v.to_bits(); let sign = ((bits >> 16) & 0x8000) as u16; let exp = ((bits >> 23) & 0xff) as i32; let man = bits & 0x7fffff;
    if exp == 0xff { return if man == 0 { Some(sign | 0x7c00) } else { Some(0x7e00) } }
    if exp == 0 && man == 0 { return Some(sign) }
    let e = exp - 127;
    if e > 15 { return None }
    if e >= -14 { if man & 0x1fff != 0 { return None } return Some(sign | (((e + 15) as u16) << 10) | (man >> 13) as u16) }
    // subnormal half
    if e < -24 { return None }
    let full = man | 0x800000; let shift = (-14 - e) + 13; // total right shift
    if shift >= 32 || full & ((1u32 << shift) - 1) != 0 { return None }
    Some(sign | (full >> shift) as u16)
}
pub fn enc(v: &V, out: &mut Vec<u8>) {
    match v {
        V::U(n) => head(0, *n, out),
        V::Neg(n) => head(1, *n, out),
        V::Bytes(b) => { head(2, b.len() as u64, out); out.extend_from_slice(b) }
        V::Text(s) => { head(3, s.len() as u64, out); out.extend_from_slice(s.as_bytes()) }
        V::Array(a) => { head(4, a.len() as u64, out); for x in a { enc(x, out) } }
        V::Map(m) => {
            let mut kv: Vec<(Vec<u8>, Vec<u8>)> = m.iter().map(|(k, v)| (bytes(k), bytes(v))).collect();
            kv.sort(); kv.dedup_by(|a, b| a.0 == b.0);
            head(5, kv.len() as u64, out); for (k, v) in kv { out.extend_from_slice(&k); out.extend_from_slice(&v) }
        }
        V::Tag(t, x) => { head(6, *t, out); enc(x, out) }
        V::Bool(false) => out.push(0xf4), V::Bool(true) => out.push(0xf5), V::Null => out.push(0xf6),
        V::F(f) => {
            // dCBOR numeric reduction
            if f.is_finite() && f.fract() == 0.0 {
                if *f >= 0.0 && *f < 18446744073709551616.0 { return head(0, *f as u64, out) }
                if *f < 0.0 && *f >= -18446744073709551616.0 { let a = (-*f) as u128; return head(1, (a - 1) as u64, out) }
            }
            if let Some(h) = f16_bits(*f) { out.push(0xf9); out.extend_from_slice(&h.to_be_bytes()); return }
            let s = *f as f32; if (s as f64) == *f { out.push(0xfa); out.extend_from_slice(&s.to_bits().to_be_bytes()); return }
            out.push(0xfb); out.extend_from_slice(&f.to_bits().to_be_bytes());
        }
    }
}
pub fn bytes(v: &V) -> Vec<u8> { let mut o = vec![]; enc(v, &mut o); o }
pub fn show(v: &V) -> String {
    match v {
        V::U(n) => format!("{n}"),
        V::Neg(n) => format!("-{}", (*n as u128) + 1),
        V::Text(s) => format!("{:?}", s),
        V::Bytes(b) => format!("h'{}'", hex::encode(b)),
        V::Bool(b) => format!("{b}"),
        V::Null => "null".into(),
        V::Array(a) => format!("[{}]", a.iter().map(show).collect::<Vec<_>>().join(", ")),
        V::Map(m) => format!("{{{}}}", m.iter().map(|(k, v)| format!("{}: {}", show(k), show(v))).collect::<Vec<_>>().join(", ")),
        V::Tag(t, x) => format!("{}({})", t, show(x)),
        V::F(f) => format!("{:?}", f),
    }
}
