//! Independent reference model: no bc-envelope / dcbor / bc-components code is used to compute expectations here.
pub mod sha256;
pub mod dcbor;
pub mod tree;
pub mod grammar;
pub mod ops;
