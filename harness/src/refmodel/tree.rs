//! Reference model of Gordian Envelope (draft-mcnally-envelope-09 sections 3-4 + known-value / encrypted / compressed extensions).
use super::dcbor::{self, V};
use super::sha256::sha256;
pub type D = [u8; 32];
#[derive(Clone, Copy, Debug, PartialEq, Eq, Hash, PartialOrd, Ord)]
pub enum Kind { Elided, Encrypted, Compressed }
#[derive(Clone, Debug, PartialEq)]
pub enum M {
    Leaf(V),
    Known(u64),
    Wrapped(Box<M>),
    Assertion(Box<M>, Box<M>),
    Node(Box<M>, Vec<M>),
    /// declared digest, and what the model knows was hidden (for decrypt / uncompress predictions)
    Obscured(Kind, D, Option<Box<M>>),
}
pub const TAG_ENVELOPE: u64 = 200;
pub const TAG_LEAF: u64 = 201;
pub const TAG_KNOWN: u64 = 40000;
pub fn leaf_text(s: &str) -> M { M::Leaf(V::Text(s.into())) }
pub fn assertion(p: M, o: M) -> M { M::Assertion(Box::new(p), Box::new(o)) }
pub fn wrapped(e: M) -> M { M::Wrapped(Box::new(e)) }
pub fn node(s: M, a: Vec<M>) -> M { M::Node(Box::new(s), a) }
impl M {
    pub fn digest(&self) -> D {
        match self {
            M::Leaf(v) => sha256(&dcbor::bytes(v)),
            M::Known(n) => sha256(&dcbor::bytes(&V::Tag(TAG_KNOWN, Box::new(V::U(*n))))),
            M::Wrapped(e) => sha256(&e.digest()),
            M::Assertion(p, o) => { let mut b = p.digest().to_vec(); b.extend_from_slice(&o.digest()); sha256(&b) }
            M::Node(s, a) => {
                let mut ds: Vec<D> = a.iter().map(|x| x.digest()).collect();
                ds.sort();
                let mut b = s.digest().to_vec();
                for d in ds { b.extend_from_slice(&d) }
                sha256(&b)
            }
            M::Obscured(_, d, _) => *d,
        }
    }
    /// untagged CBOR bytes per the CDDL; false if the tree contains ciphertext / compressed payload the model cannot predict
    pub fn encode_untagged(&self, out: &mut Vec<u8>) -> bool {
        match self {
            M::Leaf(v) => { dcbor::head(6, TAG_LEAF, out); dcbor::enc(v, out); true }
            M::Known(n) => { dcbor::head(0, *n, out); true }
            M::Wrapped(e) => { dcbor::head(6, TAG_ENVELOPE, out); e.encode_untagged(out) }
            M::Assertion(p, o) => { dcbor::head(5, 1, out); p.encode_untagged(out) && o.encode_untagged(out) }
            M::Node(s, a) => {
                let mut el: Vec<&M> = a.iter().collect();
                el.sort_by_key(|x| x.digest());
                dcbor::head(4, 1 + el.len() as u64, out);
                let mut ok = s.encode_untagged(out);
                for x in el { ok &= x.encode_untagged(out) }
                ok
            }
            M::Obscured(Kind::Elided, d, _) => { dcbor::head(2, 32, out); out.extend_from_slice(d); true }
            M::Obscured(_, _, _) => false,
        }
    }
    pub fn encode(&self) -> Option<Vec<u8>> {
        let mut o = vec![];
        dcbor::head(6, TAG_ENVELOPE, &mut o);
        if self.encode_untagged(&mut o) { Some(o) } else { None }
    }
    /// number of elements (what a structure walk visits)
    pub fn weight(&self) -> usize {
        match self {
            M::Wrapped(e) => 1 + e.weight(),
            M::Assertion(p, o) => 1 + p.weight() + o.weight(),
            M::Node(s, a) => 1 + s.weight() + a.iter().map(|x| x.weight()).sum::<usize>(),
            _ => 1,
        }
    }
    pub fn sorted_assertions(&self) -> Vec<&M> {
        match self { M::Node(_, a) => { let mut el: Vec<&M> = a.iter().collect(); el.sort_by_key(|x| x.digest()); el } _ => vec![] }
    }
    /// all elements in structure pre-order with paths
    pub fn elements<'a>(&'a self, path: String, out: &mut Vec<(String, &'a M)>) {
        out.push((path.clone(), self));
        match self {
            M::Wrapped(e) => e.elements(format!("{path}/w"), out),
            M::Assertion(p, o) => { p.elements(format!("{path}/p"), out); o.elements(format!("{path}/o"), out) }
            M::Node(s, _) => {
                s.elements(format!("{path}/s"), out);
                for x in self.sorted_assertions() { x.elements(format!("{path}/a[{}]", hex::encode(&x.digest()[..3])), out) }
            }
            _ => {}
        }
    }
    /// distinct digests of all elements, in first-occurrence pre-order
    pub fn distinct_digests(&self) -> Vec<D> {
        let mut els = vec![]; self.elements(String::new(), &mut els);
        let mut ds: Vec<D> = vec![];
        for (_, x) in &els { let d = x.digest(); if !ds.contains(&d) { ds.push(d) } }
        ds
    }
    pub fn is_assertion_like(&self) -> bool { match self { M::Assertion(..) => true, M::Node(s, _) => s.is_assertion_like(), _ => false } }
    pub fn subject_obscured(&self) -> bool { match self { M::Obscured(..) => true, M::Node(s, _) => s.subject_obscured(), _ => false } }
    pub fn has_unpredictable_bytes(&self) -> bool { self.encode().is_none() }
    /// compact notation, close to envelope notation
    pub fn show(&self) -> String {
        match self {
            M::Leaf(v) => dcbor::show(v),
            M::Known(n) => format!("'{n}'"),
            M::Wrapped(e) => format!("{{{}}}", e.show()),
            M::Assertion(p, o) => format!("{}: {}", p.show(), o.show()),
            M::Node(s, _) => {
                let subj = if matches!(**s, M::Assertion(..) | M::Node(..)) { format!("({})", s.show()) } else { s.show() };
                format!("{} [{}]", subj, self.sorted_assertions().iter().map(|x| x.show()).collect::<Vec<_>>().join(", "))
            }
            M::Obscured(k, d, h) => format!("{}<{}{}>", match k { Kind::Elided => "ELIDED", Kind::Encrypted => "ENCRYPTED", Kind::Compressed => "COMPRESSED" }, hex::encode(&d[..4]), if h.is_some() { "+" } else { "" }),
        }
    }
}
/// The model is anchored to the worked examples of the Internet-Draft; a failure here is a machinery error.
pub fn self_test() -> Result<(), String> {
    let chk = |got: D, want: &str, what: &str| if hex::encode(got) == want { Ok(()) } else { Err(format!("model self-test failed: {what}")) };
    let hello = leaf_text("Hello");
    chk(hello.digest(), "4d303dac9eed63573f6190e9c4191be619e03a7b3c21e9bb3d27ac1a55971e6b", "leaf")?;
    let a = |o: &str| assertion(leaf_text("knows"), leaf_text(o));
    chk(a("Bob").digest(), "78d666eb8f4c0977a0425ab6aa21ea16934a6bc97c6f0c3abaefac951c1714a2", "assertion")?;
    let n = node(leaf_text("Alice"), vec![a("Bob"), a("Carol"), a("Edward")]);
    chk(n.digest(), "6255e3b67ad935caf07b5dce5105d913dcfb82f0392d4d302f6d406e85ab4769", "node")?;
    chk(wrapped(hello).digest(), "743a86a9f411b1441215fbbd3ece3de5206810e8a3dd8239182e123802677bd7", "wrapped")?;
    chk(sha256(b"abc"), "ba7816bf8f01cfea414140de5dae2223b00361a396177a9cb410ff61f20015ad", "sha256")?;
    Ok(())
}
