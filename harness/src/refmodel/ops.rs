//! Model semantics of the structural operations, written from the property statements (not from the code).
use super::tree::{Kind, M, D};
use std::collections::HashSet;

/// C03: removing: an element is obscured iff its digest or an ancestor's is in T;
/// revealing: visible iff its own and all ancestors' digests are in T.
/// An element that is already obscured and is targeted stays as it is if the action cannot apply (see `accept_already`).
pub fn elide(m: &M, t: &HashSet<D>, revealing: bool, kind: Kind) -> M {
    let d = m.digest();
    if t.contains(&d) != revealing {
        return match m {
            // already obscured with the same kind: unchanged
            M::Obscured(k, ..) if *k == kind => m.clone(),
            _ => M::Obscured(kind, d, Some(Box::new(m.clone()))),
        };
    }
    match m {
        M::Assertion(p, o) => M::Assertion(Box::new(elide(p, t, revealing, kind)), Box::new(elide(o, t, revealing, kind))),
        M::Node(s, a) => M::Node(Box::new(elide(s, t, revealing, kind)), a.iter().map(|x| elide(x, t, revealing, kind)).collect()),
        M::Wrapped(e) => M::Wrapped(Box::new(elide(e, t, revealing, kind))),
        _ => m.clone(),
    }
}
/// add an assertion element to an envelope (idempotent by digest)
pub fn add(m: &M, a: &M) -> M {
    match m {
        M::Node(s, el) => {
            if el.iter().any(|x| x.digest() == a.digest()) { m.clone() } else { let mut v = el.clone(); v.push(a.clone()); M::Node(s.clone(), v) }
        }
        _ => M::Node(Box::new(m.clone()), vec![a.clone()]),
    }
}
/// remove the assertion element with this digest; last one removed => bare subject
pub fn remove(m: &M, d: &D) -> M {
    match m {
        M::Node(s, el) => {
            let v: Vec<M> = el.iter().filter(|x| &x.digest() != d).cloned().collect();
            if v.is_empty() { (**s).clone() } else { M::Node(s.clone(), v) }
        }
        _ => m.clone(),
    }
}
pub fn subject(m: &M) -> &M { match m { M::Node(s, _) => s, _ => m } }
pub fn assertions(m: &M) -> Vec<&M> { m.sorted_assertions() }
