//! Invariants evaluated on observed trees by independent recomputation (C01 / C04).
use crate::bind::O;
use crate::refmodel::sha256::sha256;
use crate::refmodel::tree::{D, M};

/// returns the digest recomputed from the children by the specification's rules; pushes (clause, path) for every disagreement
pub fn check_tree(o: &O, path: &str, errs: &mut Vec<(&'static str, String)>) -> D {
    match o {
        O::Leaf(d, bytes) => { let r = sha256(bytes); if r != *d { errs.push(("digest:leaf", path.into())) } r }
        O::Known(d, n) => { let r = M::Known(*n).digest(); if r != *d { errs.push(("digest:known", path.into())) } r }
        O::Wrapped(d, e) => { let r = sha256(&check_tree(e, &format!("{path}/w"), errs)); if r != *d { errs.push(("digest:wrapped", path.into())) } r }
        O::Assertion(d, p, ob) => {
            let mut b = check_tree(p, &format!("{path}/p"), errs).to_vec();
            b.extend_from_slice(&check_tree(ob, &format!("{path}/o"), errs));
            let r = sha256(&b); if r != *d { errs.push(("digest:assertion", path.into())) } r
        }
        O::Node(d, s, a) => {
            if a.is_empty() { errs.push(("shape:node-without-assertion", path.into())) }
            let mut b = check_tree(s, &format!("{path}/s"), errs).to_vec();
            let mut prev: Option<D> = None;
            for (i, x) in a.iter().enumerate() {
                let dx = check_tree(x, &format!("{path}/a{i}"), errs);
                if let Some(p) = prev { if p == dx { errs.push(("order:repeated-digest", path.into())) } else if !(p < dx) { errs.push(("order:not-ascending", path.into())) } }
                prev = Some(dx); b.extend_from_slice(&dx);
                if !assertion_slot_ok(x) { errs.push(("shape:non-assertion-in-assertion-slot", path.into())) }
            }
            let r = sha256(&b); if r != *d { errs.push(("digest:node", path.into())) }
            // the specification defines the node digest over the subject and the SET of assertion digests in ascending order:
            // a node assembled along a route that left a repeated or misplaced digest in the list has a digest the specification does not define
            let mut ds: Vec<D> = a.iter().map(|x| x.digest()).collect(); ds.sort(); ds.dedup();
            let mut b2 = s.digest().to_vec(); for x in &ds { b2.extend_from_slice(x) }
            if sha256(&b2) != *d { errs.push(("digest:node-not-over-the-ascending-set-of-assertion-digests", path.into())) }
            r
        }
        O::Obscured(_, d) => *d,
    }
}
pub fn assertion_slot_ok(o: &O) -> bool { match o { O::Assertion(..) | O::Obscured(..) => true, O::Node(_, s, _) => assertion_slot_ok(s), _ => false } }
