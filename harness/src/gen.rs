//! Exhaustive generation of model trees by weight.
use crate::refmodel::tree::M;
use std::collections::HashMap;
pub struct Gen { pub atoms: Vec<M>, memo_env: HashMap<usize, Vec<M>>, memo_nn: HashMap<usize, Vec<M>>, memo_as: HashMap<usize, Vec<M>> }
impl Gen {
    pub fn new(atoms: Vec<M>) -> Self { Gen { atoms, memo_env: HashMap::new(), memo_nn: HashMap::new(), memo_as: HashMap::new() } }
    /// all envelopes of exactly weight w
    pub fn env(&mut self, w: usize) -> Vec<M> {
        if let Some(v) = self.memo_env.get(&w) { return v.clone() }
        let mut out = self.nonnode(w);
        out.extend(self.node(w, false));
        self.memo_env.insert(w, out.clone()); out
    }
    pub fn nonnode(&mut self, w: usize) -> Vec<M> {
        if let Some(v) = self.memo_nn.get(&w) { return v.clone() }
        let mut out = vec![];
        if w == 1 { out.extend(self.atoms.iter().cloned()) }
        if w >= 2 { for e in self.env(w - 1) { out.push(M::Wrapped(Box::new(e))) } }
        out.extend(self.assertion(w));
        self.memo_nn.insert(w, out.clone()); out
    }
    pub fn assertion(&mut self, w: usize) -> Vec<M> {
        let mut out = vec![];
        if w >= 3 { for pw in 1..=(w - 2) { let ow = w - 1 - pw; for p in self.env(pw) { for o in self.env(ow) { out.push(M::Assertion(Box::new(p.clone()), Box::new(o))) } } } }
        out
    }
    /// assertion-slot elements of weight w: plain assertions and decorated assertions
    pub fn aslot(&mut self, w: usize) -> Vec<M> {
        if let Some(v) = self.memo_as.get(&w) { return v.clone() }
        let mut out = self.assertion(w);
        out.extend(self.node(w, true));
        self.memo_as.insert(w, out.clone()); out
    }
    /// nodes of weight w; subject restricted to assertions if `assertion_subject`
    pub fn node(&mut self, w: usize, assertion_subject: bool) -> Vec<M> {
        let mut out = vec![];
        if w < 5 { return out }
        for sw in 1..=(w - 4) {
            let subjects = if assertion_subject { self.assertion(sw) } else { self.nonnode(sw) };
            if subjects.is_empty() { continue }
            let rest = w - 1 - sw;
            let sets = self.sets(rest, rest);
            for s in &subjects { for set in &sets { if !set.is_empty() { out.push(M::Node(Box::new(s.clone()), set.clone())) } } }
        }
        out
    }
    /// sets of distinct assertion-slot elements with total weight t, element weights <= maxw, canonical (non-increasing weight, index-increasing within weight)
    fn sets(&mut self, t: usize, maxw: usize) -> Vec<Vec<M>> {
        if t == 0 { return vec![vec![]] }
        if maxw < 3 { return vec![] }
        let mut out = vec![];
        let pool = self.aslot(maxw);
        // choose k distinct elements of weight maxw
        let maxk = t / maxw;
        for k in 0..=maxk {
            let rests = self.sets(t - k * maxw, maxw - 1);
            if rests.is_empty() { continue }
            for combo in combos(pool.len(), k) {
                for r in &rests { let mut v: Vec<M> = combo.iter().map(|&i| pool[i].clone()).collect(); v.extend(r.iter().cloned()); out.push(v) }
            }
        }
        out
    }
}
pub fn combos(n: usize, k: usize) -> Vec<Vec<usize>> {
    fn rec(start: usize, n: usize, k: usize, cur: &mut Vec<usize>, out: &mut Vec<Vec<usize>>) {
        if cur.len() == k { out.push(cur.clone()); return }
        for i in start..n { cur.push(i); rec(i + 1, n, k, cur, out); cur.pop(); }
    }
    let mut out = vec![]; if k <= n { rec(0, n, k, &mut vec![], &mut out) } out
}
