//! Shared finite domains (DESIGN section 3): tree families by weight, atom alphabets, leaf alphabet L.
use crate::gen::Gen;
use crate::refmodel::dcbor::V;
use crate::refmodel::tree::{M, Kind, D};

pub fn atoms() -> Vec<M> { vec![M::Leaf(V::Text("a".into())), M::Leaf(V::U(1)), M::Known(1)] }
/// all trees of weight <= w over the plain atom alphabet (atoms re-used at several positions => equal digests at different positions)
pub fn plain(w: usize) -> Vec<M> { let mut g = Gen::new(atoms()); let mut out = vec![]; for i in 1..=w { out.extend(g.env(i)) } out }
/// same shapes, every atom instance given a unique marker so positions are distinguishable; markers encode to >= 9 bytes so that
/// a coincidental occurrence inside random ciphertext or a digest has negligible probability (< 2^-60 per search)
pub fn marked(w: usize) -> Vec<M> { plain(w).into_iter().map(|m| { let mut k = 0; mark(&m, &mut k) }).collect() }
/// trees in which a whole assertion occurs a second time, nested in a sibling (on its object, on its predicate, behind a wrapper) or inside
/// a wrapped subject; four different carrier markers each, so that the carrier sorts before and after the original by digest
pub fn repeated(w: usize) -> Vec<M> {
    let t = |s: String| M::Leaf(V::Text(s));
    let mut out = vec![];
    for m in marked(w) {
        let M::Node(s, a) = &m else { continue };
        for ai in a {
            if !matches!(ai, M::Assertion(..)) { continue }
            for k in 0..4 {
                let (rp, ro) = (t(format!("carrier-p{k}-0123456789")), t(format!("carrier-o{k}-0123456789")));
                let with = |x: M| { let mut v = a.clone(); v.push(x); M::Node(s.clone(), v) };
                out.push(with(M::Assertion(Box::new(rp.clone()), Box::new(M::Node(Box::new(ro.clone()), vec![ai.clone()])))));
                out.push(with(M::Assertion(Box::new(M::Node(Box::new(rp.clone()), vec![ai.clone()])), Box::new(ro.clone()))));
                out.push(with(M::Assertion(Box::new(rp.clone()), Box::new(M::Wrapped(Box::new(M::Node(Box::new(ro.clone()), vec![ai.clone()])))))));
                if k == 0 { out.push(M::Node(Box::new(M::Wrapped(Box::new(M::Node(s.clone(), vec![ai.clone()])))), a.clone())) }
            }
        }
    }
    out
}
pub fn mark(m: &M, k: &mut usize) -> M {
    match m {
        M::Leaf(V::Text(_)) => { *k += 1; M::Leaf(V::Text(format!("marker-{:02}-0123456789", *k))) }
        M::Leaf(V::U(_)) => { *k += 1; M::Leaf(V::U(0x4D4B_5200_0000_0000 + *k as u64)) }
        M::Leaf(v) => M::Leaf(v.clone()),
        M::Known(_) => { *k += 1; M::Known(0x4B56_4D00_0000_0000 + *k as u64) }
        M::Wrapped(e) => M::Wrapped(Box::new(mark(e, k))),
        M::Assertion(p, o) => { let p = mark(p, k); let o = mark(o, k); M::Assertion(Box::new(p), Box::new(o)) }
        M::Node(s, a) => { let s = mark(s, k); M::Node(Box::new(s), a.iter().map(|x| mark(x, k)).collect()) }
        M::Obscured(..) => m.clone(),
    }
}
/// marker byte patterns of every atom under this subtree (for residue search)
pub fn markers(m: &M, out: &mut Vec<Vec<u8>>) {
    match m {
        M::Leaf(v) => out.push(crate::refmodel::dcbor::bytes(v)),
        M::Known(n) => { let mut b = vec![]; crate::refmodel::dcbor::head(0, *n, &mut b); out.push(b) }
        M::Wrapped(e) => markers(e, out),
        M::Assertion(p, o) => { markers(p, out); markers(o, out) }
        M::Node(s, a) => { markers(s, out); for x in a { markers(x, out) } }
        M::Obscured(_, _, Some(h)) => markers(h, out),
        M::Obscured(..) => {}
    }
}
/// decode-only shapes: only the decoder / decrypt / uncompress can produce them
pub fn decode_only() -> Vec<M> {
    let t = |s: &str| M::Leaf(V::Text(s.into()));
    let a = |p: &str, o: &str| M::Assertion(Box::new(t(p)), Box::new(t(o)));
    let el = |m: &M| M::Obscured(Kind::Elided, m.digest(), None);
    let inner = M::Node(Box::new(t("s")), vec![a("p", "o")]);
    vec![
        // node whose subject is a node
        M::Node(Box::new(inner.clone()), vec![a("q", "r")]),
        M::Node(Box::new(M::Node(Box::new(inner.clone()), vec![a("q", "r")])), vec![a("u", "v")]),
        // obscured elements in assertion slots
        M::Node(Box::new(t("s")), vec![el(&a("p", "o"))]),
        M::Node(Box::new(t("s")), vec![el(&a("p", "o")), a("q", "r")]),
        M::Node(Box::new(t("s")), vec![el(&a("p", "o")), el(&a("q", "r"))]),
        // obscured subjects
        M::Node(Box::new(el(&t("s"))), vec![a("p", "o")]),
        M::Node(Box::new(el(&inner)), vec![a("p", "o")]),
        // an elided placeholder alone
        el(&t("s")),
        // assertion with obscured predicate / object
        M::Assertion(Box::new(el(&t("p"))), Box::new(t("o"))),
        M::Assertion(Box::new(t("p")), Box::new(el(&t("o")))),
        M::Node(Box::new(t("s")), vec![M::Assertion(Box::new(el(&t("p"))), Box::new(el(&t("o"))))]),
        // decorated assertion whose own subject assertion is elided (node with obscured subject in assertion slot)
        M::Node(Box::new(t("s")), vec![M::Node(Box::new(el(&a("p", "o"))), vec![a("q", "r")])]),
        // wrapped elided
        M::Wrapped(Box::new(el(&t("s")))),
        // an assertion element that is a node whose subject is again a node over an assertion (two levels of decoration; arises from
        // obscuring a decorated assertion, adding to the obscured form and revealing it again)
        M::Node(Box::new(t("s")), vec![M::Node(Box::new(M::Node(Box::new(a("p", "o")), vec![a("q", "r")])), vec![a("u", "v")])]),
        M::Node(Box::new(t("s")), vec![M::Node(Box::new(M::Node(Box::new(el(&a("p", "o"))), vec![a("q", "r")])), vec![a("u", "v")]), a("k", "w")]),
    ]
}
/// nodes whose subject is a node (reached through the API by compress / add / uncompress_subject, or by decoding): several inner and outer
/// assertion sets, an assertion shared between the two levels, three levels, and the shape as a wrapped interior and as an object
pub fn nsn() -> Vec<M> {
    let t = |s: &str| M::Leaf(V::Text(s.into()));
    let a = |p: &str, o: &str| M::Assertion(Box::new(t(p)), Box::new(t(o)));
    let n = |s: M, v: Vec<M>| M::Node(Box::new(s), v);
    let inner1 = n(t("Alice"), vec![a("knows", "Bob")]);
    let inner2 = n(t("Alice"), vec![a("knows", "Bob"), M::Assertion(Box::new(M::Known(4)), Box::new(t("n")))]);
    vec![
        n(inner1.clone(), vec![a("note", "first")]),
        n(inner1.clone(), vec![a("note", "first"), a("seen", "twice")]),
        n(inner2.clone(), vec![a("note", "first")]),
        n(inner1.clone(), vec![a("knows", "Bob")]),                       // the same assertion on both levels
        n(inner2.clone(), vec![a("knows", "Bob"), a("note", "first")]),
        n(n(M::Wrapped(Box::new(t("w"))), vec![a("p", "o")]), vec![a("q", "r")]),
        n(n(M::Known(1), vec![a("p", "o")]), vec![M::Assertion(Box::new(M::Known(4)), Box::new(t("n")))]),
        n(n(inner1.clone(), vec![a("note", "first")]), vec![a("outer", "most")]),
        M::Wrapped(Box::new(n(inner1.clone(), vec![a("note", "first")]))),
        n(t("holder"), vec![M::Assertion(Box::new(t("carries")), Box::new(n(inner1.clone(), vec![a("note", "first")])))]),
    ]
}
/// an assertion that carries an assertion and whose OWN assertion (its subject) is then obscured - under each of the three kinds, alone and next
/// to a plain assertion, and one level deeper inside a wrapped envelope. Built through the API (obscure the inner assertion as a whole, then add).
pub fn decorated_obscured() -> Vec<M> {
    let t = |s: &str| M::Leaf(V::Text(s.into()));
    let a = |p: &str, o: &str| M::Assertion(Box::new(t(p)), Box::new(t(o)));
    let mut out = vec![];
    for k in [Kind::Elided, Kind::Encrypted, Kind::Compressed] {
        let inner = a("dp", "do");
        let dec = M::Node(Box::new(M::Obscured(k, inner.digest(), Some(Box::new(inner.clone())))), vec![a("dq", "dr")]);
        // the whole assertion obscured in its slot (under each kind), next to a plain one
        out.push(M::Node(Box::new(t("ds")), vec![M::Obscured(k, inner.digest(), Some(Box::new(inner.clone()))), a("dk", "dw")]));
        out.push(M::Node(Box::new(t("ds")), vec![dec.clone()]));
        out.push(M::Node(Box::new(t("ds")), vec![dec.clone(), a("dk", "dw")]));
        out.push(M::Node(Box::new(M::Wrapped(Box::new(M::Node(Box::new(t("ds")), vec![dec.clone()])))), vec![a("dk", "dw")]));
    }
    out
}
pub fn absent_digest() -> D { [0xEE; 32] }
/// L: leaf values for encoding properties, one per CBOR head-width boundary and per CBORCase arm
pub fn leaf_alphabet() -> Vec<V> {
    let mut l = vec![];
    for n in [0u64, 23, 24, 255, 256, 65535, 65536, u32::MAX as u64, u32::MAX as u64 + 1, 1 << 63, u64::MAX] { l.push(V::U(n)) }
    for n in [0u64, 23, 24, 255, 256, 65536, (1 << 31), (1 << 63) - 1, 1 << 63, u64::MAX] { l.push(V::Neg(n)) } // -1-n
    for f in [1.5f64, 0.1, -0.1, 65504.0, 1e-8, 3.4e38, 1e300, 2.0, -3.0, 1e18, -0.0, f64::NAN, f64::INFINITY, f64::NEG_INFINITY, 5.960464477539063e-8, 1.0e-45_f32 as f64, 0.00006103515625, 1.1] { l.push(V::F(f)) }
    for s in ["", "a", "é", "👍"] { l.push(V::Text(s.into())) }
    for n in [23usize, 24, 255, 256] { l.push(V::Text("x".repeat(n))) }
    for n in [0usize, 1, 31, 32, 33] { l.push(V::Bytes((0..n).map(|i| i as u8).collect())) }
    l.extend([V::Bool(true), V::Bool(false), V::Null]);
    l.push(V::Array(vec![]));
    l.push(V::Array(vec![V::U(1), V::U(2)]));
    l.push(V::Array(vec![V::Array(vec![V::U(1)]), V::Text("a".into())]));
    l.push(V::Map(vec![]));
    l.push(V::Map(vec![(V::U(1), V::U(2))]));
    l.push(V::Map(vec![(V::Text("a".into()), V::U(1)), (V::U(2), V::Text("b".into())), (V::Neg(0), V::Array(vec![]))]));
    l.push(V::Map(vec![(V::Neg(0), V::Array(vec![])), (V::U(2), V::Text("b".into())), (V::Text("a".into()), V::U(1))]));
    l.push(V::Map(vec![(V::U(10), V::U(1)), (V::U(100), V::U(2)), (V::Neg(0), V::U(3)), (V::Text("z".into()), V::U(4)), (V::Text("aa".into()), V::U(5)), (V::Array(vec![V::U(100)]), V::U(6)), (V::Array(vec![V::Neg(0)]), V::U(7)), (V::Bool(false), V::U(8))]));
    l.push(V::Tag(1, Box::new(V::U(1720091471))));
    l.push(V::Tag(1, Box::new(V::F(1720091471.5))));
    l.push(V::Tag(1, Box::new(V::Neg(99))));
    l.push(V::Tag(100, Box::new(V::Text("t".into()))));
    l.push(V::Tag(100, Box::new(V::Tag(101, Box::new(V::U(1))))));
    l.push(V::Tag(200, Box::new(V::Tag(201, Box::new(V::Text("inner".into())))))); // envelope family tags inside a leaf
    l.push(V::Tag(201, Box::new(V::U(5))));
    l.push(V::Tag(24, Box::new(V::Bytes(vec![1, 2, 3]))));
    l.push(V::Tag(40000, Box::new(V::U(1))));
    l.push(V::Tag(40001, Box::new(V::Bytes(vec![0xAB; 32])))); // Digest as leaf
    l.push(V::Tag(40018, Box::new(V::Bytes(vec![0xCD; 16])))); // Salt as leaf
    l.push(V::Tag(u64::MAX, Box::new(V::Null)));
    l
}
/// known values at every CBOR head-width boundary (and 2^28, where a hand-written head encoder is most likely to slip)
pub fn known_alphabet() -> Vec<u64> { vec![0, 1, 23, 24, 255, 256, 65535, 65536, (1 << 28) - 1, 1 << 28, 1 << 31, u32::MAX as u64, 1 << 32, 1 << 53, 1 << 63, u64::MAX] }
fn valued_shapes(x: &M) -> Vec<M> {
    let t = |s: &str| M::Leaf(V::Text(s.into()));
    let a = |p: &str, o: &str| M::Assertion(Box::new(t(p)), Box::new(t(o)));
    vec![
        M::Node(Box::new(x.clone()), vec![a("vp", "vo")]),
        M::Node(Box::new(t("vs")), vec![M::Assertion(Box::new(t("vp")), Box::new(x.clone()))]),
        x.clone(),
        M::Node(Box::new(t("vs")), vec![M::Assertion(Box::new(x.clone()), Box::new(t("vo")))]),
        M::Wrapped(Box::new(x.clone())),
        M::Node(Box::new(t("vs")), vec![M::Node(Box::new(M::Assertion(Box::new(t("vp")), Box::new(x.clone()))), vec![a("vq", "vr")])]),
    ]
}
/// leaf values that embed a whole envelope (tag 200) with parts of its own: a node, and a wrapped assertion
fn embedded_envelopes() -> Vec<V> {
    let lf = |s: &str| V::Tag(201, Box::new(V::Text(s.into())));
    vec![
        V::Tag(200, Box::new(V::Array(vec![lf("emb-subject"), V::Map(vec![(lf("emb-pred"), lf("emb-obj"))])]))),
        V::Tag(200, Box::new(V::Tag(200, Box::new(V::Map(vec![(lf("emb-pred"), V::U(7))]))))),
    ]
}
/// digests of elements INSIDE the embedded envelopes above (and inside L's `200(201("inner"))` leaf)
pub fn embedded_inner_digests() -> Vec<D> { vec![M::Leaf(V::Text("emb-subject".into())).digest(), M::Leaf(V::Text("emb-pred".into())).digest(), M::Leaf(V::Text("inner".into())).digest()] }
/// The value-dependent family (added after seeding round 8): EVERY value of the leaf alphabet L, every known value of the boundary
/// alphabet and two leaves that embed a whole envelope, each as subject, as object, alone, as predicate, wrapped, and as the object
/// of an assertion that carries an assertion. The shape families use three atoms and markers only, so a fault that depends on WHAT
/// a leaf holds (NaN, null, an empty string, a negative integer below i64::MIN, a tagged known value, an embedded envelope, a known
/// value of 2^28 or 2^32) was invisible to every check except C01 / C05 / C15 / C16.
pub fn valued() -> Vec<M> { valued_atoms().iter().flat_map(valued_shapes).collect() }
pub fn valued_atoms() -> Vec<M> {
    let mut atoms: Vec<M> = leaf_alphabet().into_iter().map(M::Leaf).collect();
    atoms.extend(embedded_envelopes().into_iter().map(M::Leaf));
    atoms.extend(known_alphabet().into_iter().map(M::Known));
    atoms
}
/// three-assertion nodes holding each value as an object and as a predicate (for the add / remove / replace laws)
pub fn valued_multi() -> Vec<(String, M)> {
    let t = |s: &str| M::Leaf(V::Text(s.into()));
    valued_atoms().into_iter().enumerate().map(|(i, x)| (format!("valued-{i}-{}", x.show().chars().take(24).collect::<String>()), M::Node(Box::new(t("vs")), vec![M::Assertion(Box::new(t("vp")), Box::new(x.clone())), M::Assertion(Box::new(x.clone()), Box::new(t("vo"))), M::Assertion(Box::new(t("vq")), Box::new(t("vr")))]))).collect()
}
/// a selection for the expensive checks: one value per kind, as subject and as object
pub fn valued_few() -> Vec<M> {
    let mut atoms: Vec<M> = vec![V::F(f64::NAN), V::Null, V::Neg(u64::MAX), V::Neg(1 << 63), V::Text("".into()), V::Bytes(vec![]), V::F(1.5), V::F(-0.0), V::Bool(false), V::Array(vec![V::F(f64::NAN), V::U(1)]),
        V::Map(vec![(V::U(1), V::U(2))]), V::Tag(1, Box::new(V::F(1720091471.5))), V::Tag(40000, Box::new(V::U(1))), V::Tag(24, Box::new(V::Bytes(vec![1, 2, 3]))), V::Text("é".repeat(30))].into_iter().map(M::Leaf).collect();
    atoms.push(M::Leaf(embedded_envelopes().remove(0)));
    for k in [0u64, 1 << 28, u32::MAX as u64, 1 << 32, u64::MAX] { atoms.push(M::Known(k)) }
    atoms.iter().flat_map(|x| valued_shapes(x).into_iter().take(2)).collect()
}
/// n-th permutation of 0..n (factorial number system for n <= 12; for longer lists a family of rotations / reversals / strides)
pub fn nth_perm(n: usize, mut idx: usize) -> Vec<usize> {
    if n > 12 {
        let mut v: Vec<usize> = (0..n).collect();
        match idx % 4 { 0 => {} 1 => v.reverse(), 2 => v.rotate_left(n / 3), _ => { let stride = if n % 7 == 0 { 5 } else { 7 }; v = (0..n).map(|i| (i * stride) % n).collect(); let mut seen = vec![false; n]; let mut ok = true; for x in &v { if seen[*x] { ok = false } seen[*x] = true } if !ok { v = (0..n).rev().collect(); v.rotate_left(1) } } }
        return v;
    }
    let mut items: Vec<usize> = (0..n).collect(); let mut out = vec![];
    let mut f: Vec<usize> = vec![1; n + 1]; for i in 1..=n { f[i] = f[i - 1] * i }
    idx %= f[n];
    for i in (1..=n).rev() { let k = idx / f[i - 1]; idx %= f[i - 1]; out.push(items.remove(k)); }
    out
}
pub fn factorial(n: usize) -> usize { (1..=n.min(12)).product::<usize>().max(1) }

/// shapes at CBOR head-width boundaries and beyond the small-scope families: wide nodes (array length 23/24/25, 255/256/257),
/// deep wrapping, a wide node inside an assertion object, long text / byte-string leaves
pub fn wide_tier(thorough: bool) -> Vec<(String, M)> { wide().into_iter().filter(|(n, _)| thorough || !(n.contains("6553") || ["node-127-assertions", "node-129-assertions", "node-254-assertions", "node-255-assertions"].contains(&n.as_str()))).collect() }
/// boundary shapes + the count and depth sweeps (for checks that cost little per shape)
pub fn wide_all(thorough: bool) -> Vec<(String, M)> { let mut v = wide_tier(thorough); v.extend(node_sweep(1, if thorough { 140 } else { 72 })); v.extend(depth_sweep(if thorough { 64 } else { 40 })); v }
/// a node with n plain assertions for EVERY n in the range (cheap checks sweep all counts, so that a fault at exactly one count is met)
pub fn node_sweep(lo: usize, hi: usize) -> Vec<(String, M)> {
    let t = |s: String| M::Leaf(V::Text(s));
    (lo..=hi).map(|n| (format!("sweep-node-{n}"), M::Node(Box::new(t("sweep".into())), (0..n).map(|i| M::Assertion(Box::new(t(format!("q{i:03}"))), Box::new(M::Leaf(V::U(i as u64))))).collect()))).collect()
}
/// wrapping depth sweep and nesting depth sweep
pub fn depth_sweep(hi: usize) -> Vec<(String, M)> {
    let t = |s: String| M::Leaf(V::Text(s));
    let mut out = vec![];
    let mut w = t("deep".into()); for d in 1..=hi { w = M::Wrapped(Box::new(w)); out.push((format!("sweep-wrapped-x{d}"), w.clone())) }
    let mut nest = t("n0".into()); for d in 1..=hi { nest = M::Node(Box::new(t(format!("n{d}"))), vec![M::Assertion(Box::new(t(format!("child{d}"))), Box::new(nest))]); out.push((format!("sweep-nested-x{d}"), nest.clone())) }
    out
}
pub fn wide() -> Vec<(String, M)> {
    let t = |s: String| M::Leaf(V::Text(s));
    let a = |i: usize| M::Assertion(Box::new(t(format!("p{i:03}"))), Box::new(M::Leaf(V::U(i as u64))));
    let mut out = vec![];
    for n in [15usize, 16, 17, 22, 23, 24, 25, 31, 32, 33, 40, 63, 64, 65, 127, 128, 129, 254, 255, 256] { out.push((format!("node-{n}-assertions"), M::Node(Box::new(t("wide".into())), (0..n).map(a).collect()))) }
    // a predicate used twice with an unrelated assertion sorting BETWEEN the two by digest (6 instances), and not between (2 instances)
    { let (mut between, mut outside) = (0, 0);
      for i in 0..60 { let (a1, a2, o) = (M::Assertion(Box::new(t("knows".into())), Box::new(t("Bob".into()))), M::Assertion(Box::new(t("knows".into())), Box::new(t("Carol".into()))), M::Assertion(Box::new(t(format!("other-{i}"))), Box::new(M::Leaf(V::U(i as u64)))));
        let (d1, d2, d3) = (a1.digest(), a2.digest(), o.digest()); let is_between = (d1.min(d2) < d3) && (d3 < d1.max(d2));
        if (is_between && between < 6) || (!is_between && outside < 2) { if is_between { between += 1 } else { outside += 1 } out.push((format!("dup-predicate-{}-{i}", if is_between { "split" } else { "adjacent" }), M::Node(Box::new(t("Alice".into())), vec![a1, a2, o]))) } } }
    // four assertions sharing a predicate among 26 others
    out.push(("node-30-with-4-same-predicate".into(), M::Node(Box::new(t("mixed".into())), (0..30).map(|i| if i % 8 == 3 { M::Assertion(Box::new(t("tag".into())), Box::new(t(format!("v{i}")))) } else { a(i) }).collect())));
    // one predicate at 20 positions (a digest occurring many times)
    out.push(("node-20-same-predicate".into(), M::Node(Box::new(t("Alice".into())), (0..20).map(|i| M::Assertion(Box::new(t("knows".into())), Box::new(t(format!("friend-{i:02}"))))).collect())));
    let mut w = t("deep".into()); for _ in 0..24 { w = M::Wrapped(Box::new(w)) } out.push(("wrapped-x24".into(), w));
    let mut nest = M::Node(Box::new(t("n0".into())), vec![a(0)]); for i in 1..12 { nest = M::Node(Box::new(t(format!("n{i}"))), vec![M::Assertion(Box::new(t(format!("child{i}"))), Box::new(nest))]) } out.push(("nested-nodes-x12".into(), nest));
    out.push(("wide-node-as-object".into(), M::Node(Box::new(t("outer".into())), vec![M::Assertion(Box::new(t("inner".into())), Box::new(M::Node(Box::new(t("w".into())), (0..24).map(a).collect()))), a(900)])));
    for n in [255usize, 256, 65535, 65536] { out.push((format!("text-{n}"), M::Node(Box::new(t("x".repeat(n))), vec![a(1)]))); out.push((format!("bytes-{n}"), M::Leaf(V::Bytes(vec![0x5A; n])))) }
    out.push(("array-leaf-300".into(), M::Leaf(V::Array((0..300u64).map(V::U).collect()))));
    out.push(("map-leaf-30".into(), M::Leaf(V::Map((0..30u64).map(|i| (V::U(i * 100), V::Text(format!("v{i}")))).collect()))));
    out
}

/// target-subset masks over k digests: all 2^k when k <= 10, otherwise the empty set, all singletons, all pairs and the full set
/// (the decode-only shapes have up to 15 distinct digests; the small-scope families never exceed 10)
pub fn masks(k: usize) -> Vec<u32> {
    if k <= 10 { return (0u32..(1u32 << k)).collect() }
    let mut v = vec![0u32];
    for i in 0..k { v.push(1 << i); for j in (i + 1)..k { v.push((1 << i) | (1 << j)) } }
    v.push(((1u64 << k) - 1) as u32);
    v
}

/// k digests that occur in no generated tree
pub fn absent_digests(k: usize) -> Vec<crate::refmodel::tree::D> { (0..k).map(|i| crate::refmodel::sha256::sha256(format!("absent-digest-{i}").as_bytes())).collect() }
